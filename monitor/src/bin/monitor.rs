//! CLI: monitor run --property C01 --tier quick --seed 1 --build rel --out run.json [--workers N]
//!      monitor replay --property C01 --build rel --case "<case string>"
use std::time::Instant;

use bva_monitor::case::Case;
use bva_monitor::exec::install_panic_hook;
use bva_monitor::props;
use bva_monitor::report::{had_harness_error, Ctx, Tier};

fn arg(args: &[String], name: &str) -> Option<String> {
    args.iter().position(|a| a == name).and_then(|i| args.get(i + 1).cloned())
}

fn main() {
    let args: Vec<String> = std::env::args().collect();
    if args.len() < 2 {
        eprintln!("usage: monitor run|replay ...");
        std::process::exit(3);
    }
    install_panic_hook();
    let build = arg(&args, "--build").unwrap_or_else(|| if cfg!(debug_assertions) { "dbg".into() } else { "rel".into() });
    let prop = arg(&args, "--property").expect("--property");
    let def = match props::find(&prop) {
        Some(d) => d,
        None => {
            eprintln!("unknown property {}", prop);
            std::process::exit(3);
        }
    };
    match args[1].as_str() {
        "run" => {
            let tier = Tier::parse(&arg(&args, "--tier").unwrap_or_else(|| "quick".into())).expect("--tier");
            let seed: u64 = arg(&args, "--seed").map_or(1, |s| s.parse().expect("--seed"));
            let out = arg(&args, "--out");
            let nworkers: usize = arg(&args, "--workers").map_or_else(
                || std::thread::available_parallelism().map_or(4, |n| n.get()),
                |s| s.parse().expect("--workers"),
            );
            let t0 = Instant::now();
            // --shard i/n: run worker i of n in this (single) thread - used under Miri / valgrind,
            // where parallelism comes from separate processes
            if let Some(sh) = arg(&args, "--shard") {
                let (i, n) = sh.split_once('/').expect("--shard i/n");
                let (i, n): (usize, usize) = (i.parse().expect("shard"), n.parse().expect("shard"));
                let mut ctx = Ctx::new(&prop, &build, tier, seed, i, n);
                (def.run)(&mut ctx);
                let json = ctx.to_json(t0.elapsed().as_secs_f64(), def.required);
                match out {
                    Some(p) => std::fs::write(&p, json).expect("write out"),
                    None => print!("{}", json),
                }
                if had_harness_error() {
                    std::process::exit(3);
                }
                return;
            }
            let mut handles = vec![];
            for w in 0..nworkers {
                let prop = prop.clone();
                let build = build.clone();
                let run = def.run;
                handles.push(
                    std::thread::Builder::new()
                        .stack_size(64 << 20)
                        .spawn(move || {
                            let mut ctx = Ctx::new(&prop, &build, tier, seed, w, nworkers);
                            run(&mut ctx);
                            for (k, n) in bva_monitor::spec::take_via_counts() {
                                ctx.bucket_n(&k, n);
                            }
                            ctx
                        })
                        .expect("spawn"),
                );
            }
            let mut total = Ctx::new(&prop, &build, tier, seed, 0, nworkers);
            let mut worker_died = false;
            for h in handles {
                match h.join() {
                    Ok(c) => total.merge(c),
                    Err(_) => worker_died = true,
                }
            }
            let wall = t0.elapsed().as_secs_f64();
            let json = total.to_json(wall, def.required);
            match out {
                Some(p) => std::fs::write(&p, json).expect("write out"),
                None => print!("{}", json),
            }
            if worker_died || had_harness_error() {
                eprintln!("harness error (worker died: {})", worker_died);
                std::process::exit(3);
            }
        }
        "replay" => {
            let cs = arg(&args, "--case").expect("--case");
            let case = Case::dec(&cs).expect("case string");
            let mut ctx = Ctx::new(&prop, &build, Tier::Quick, 0, 0, 1);
            ctx.replaying = true;
            (def.replay)(&mut ctx, &case);
            print!("{}", ctx.to_json(0.0, &[]));
            if had_harness_error() {
                std::process::exit(3);
            }
        }
        other => {
            eprintln!("unknown command {}", other);
            std::process::exit(3);
        }
    }
}
