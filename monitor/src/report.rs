//! Per-worker monitor context: what was observed (counters, buckets, distinct case signatures,
//! sample cases) and what was refuted (violations with replayable case strings). Merged after the
//! workers join and written as JSON for the orchestrator.

use std::collections::{BTreeMap, HashSet};
use std::sync::atomic::{AtomicBool, Ordering};
use std::sync::Mutex;

static HARNESS_ERROR: AtomicBool = AtomicBool::new(false);
static HARNESS_MSGS: Mutex<Vec<String>> = Mutex::new(Vec::new());

pub fn note_harness_error(msg: &str) {
    HARNESS_ERROR.store(true, Ordering::SeqCst);
    if let Ok(mut v) = HARNESS_MSGS.lock() {
        if v.len() < 10 {
            v.push(msg.to_string());
        }
    }
}
pub fn harness_errors() -> Vec<String> {
    HARNESS_MSGS.lock().map(|v| v.clone()).unwrap_or_default()
}
pub fn had_harness_error() -> bool {
    HARNESS_ERROR.load(Ordering::SeqCst)
}

#[derive(Clone, Copy, PartialEq, Eq, Debug)]
pub enum Tier {
    /// tiny: for Miri / memcheck
    Tiny,
    Quick,
    Thorough,
}

impl Tier {
    pub fn parse(s: &str) -> Option<Tier> {
        match s {
            "tiny" => Some(Tier::Tiny),
            "quick" => Some(Tier::Quick),
            "thorough" => Some(Tier::Thorough),
            _ => None,
        }
    }
    pub fn name(self) -> &'static str {
        match self {
            Tier::Tiny => "tiny",
            Tier::Quick => "quick",
            Tier::Thorough => "thorough",
        }
    }
    /// pick a size by tier
    pub fn pick<T>(self, tiny: T, quick: T, thorough: T) -> T {
        match self {
            Tier::Tiny => tiny,
            Tier::Quick => quick,
            Tier::Thorough => thorough,
        }
    }
}

#[derive(Clone, Debug)]
pub struct Violation {
    /// name of the monitor clause that fired
    pub check: String,
    /// deterministic classification of *what failed* (for dedup and known findings)
    pub sig: String,
    /// replayable case encoding
    pub case: String,
    pub detail: String,
}

pub struct Ctx {
    pub prop: String,
    pub build: String,
    pub tier: Tier,
    pub seed: u64,
    pub worker: usize,
    pub nworkers: usize,
    pub replaying: bool,
    /// sanitizer runs: never run the full battery (Miri is ~4 orders of magnitude slower)
    pub lite_only: bool,

    pub evaluations: u64,
    pub distinct: HashSet<u64>,
    pub states: HashSet<u64>,
    pub buckets: BTreeMap<String, u64>,
    pub samples: BTreeMap<String, Vec<String>>,
    pub violations: Vec<Violation>,
    pub viol_counts: BTreeMap<String, u64>,
    pub max_len: usize,
    pub panics_expected: u64,
    pub histories: u64,
    pub battery_full: u64,
    pub battery_lite: u64,
    pub observer_calls: u64,
    pub type_pairs: HashSet<(u8, u8)>,
    /// diagnostic only: storage bits set beyond len after an op (never a verdict)
    pub dirty_after: BTreeMap<String, u64>,
    case_counter: u64,
}

impl Ctx {
    pub fn new(prop: &str, build: &str, tier: Tier, seed: u64, worker: usize, nworkers: usize) -> Ctx {
        Ctx {
            prop: prop.to_string(),
            build: build.to_string(),
            tier,
            seed,
            worker,
            nworkers,
            replaying: false,
            lite_only: prop == "SANIT" && tier == Tier::Tiny,
            evaluations: 0,
            distinct: HashSet::new(),
            states: HashSet::new(),
            buckets: BTreeMap::new(),
            samples: BTreeMap::new(),
            violations: Vec::new(),
            viol_counts: BTreeMap::new(),
            max_len: 0,
            panics_expected: 0,
            histories: 0,
            battery_full: 0,
            battery_lite: 0,
            observer_calls: 0,
            type_pairs: HashSet::new(),
            dirty_after: BTreeMap::new(),
            case_counter: 0,
        }
    }

    pub fn is_dbg(&self) -> bool {
        cfg!(debug_assertions)
    }

    /// Work sharding: deterministic workloads enumerate the same case stream in every worker and
    /// each worker takes the cases whose running index is its own modulo the worker count.
    pub fn mine(&mut self) -> bool {
        let c = self.case_counter;
        self.case_counter += 1;
        (c % self.nworkers as u64) as usize == self.worker
    }

    /// One judged execution. `sig` identifies the case (types, op/form, lengths, value class).
    pub fn eval(&mut self, sig: u64, nontrivial: bool) {
        self.evaluations += 1;
        if nontrivial {
            self.distinct.insert(sig);
        }
    }

    pub fn bucket(&mut self, name: &str) {
        *self.buckets.entry(name.to_string()).or_insert(0) += 1;
    }
    pub fn bucket_n(&mut self, name: &str, n: u64) {
        *self.buckets.entry(name.to_string()).or_insert(0) += n;
    }

    pub fn sample(&mut self, kind: &str, case: impl FnOnce() -> String) {
        let v = self.samples.entry(kind.to_string()).or_default();
        if v.len() < 2 {
            v.push(case());
        }
    }

    pub fn note_len(&mut self, n: usize) {
        if n > self.max_len {
            self.max_len = n;
        }
    }

    pub fn violation(&mut self, check: &str, sig: &str, case: &str, detail: String) {
        let full_sig = format!("{}|{}|{}", self.prop, check, sig);
        let n = self.viol_counts.entry(full_sig.clone()).or_insert(0);
        *n += 1;
        if *n == 1 {
            self.violations.push(Violation {
                check: check.to_string(),
                sig: full_sig,
                case: case.to_string(),
                detail,
            });
        }
    }

    pub fn merge(&mut self, o: Ctx) {
        self.evaluations += o.evaluations;
        self.distinct.extend(o.distinct);
        self.states.extend(o.states);
        for (k, v) in o.buckets {
            *self.buckets.entry(k).or_insert(0) += v;
        }
        for (k, v) in o.samples {
            let e = self.samples.entry(k).or_default();
            for s in v {
                if e.len() < 2 {
                    e.push(s);
                }
            }
        }
        for v in o.violations {
            if !self.violations.iter().any(|x| x.sig == v.sig) {
                self.violations.push(v);
            }
        }
        for (k, v) in o.viol_counts {
            *self.viol_counts.entry(k).or_insert(0) += v;
        }
        self.max_len = self.max_len.max(o.max_len);
        self.panics_expected += o.panics_expected;
        self.histories += o.histories;
        self.battery_full += o.battery_full;
        self.battery_lite += o.battery_lite;
        self.observer_calls += o.observer_calls;
        self.type_pairs.extend(o.type_pairs);
        for (k, v) in o.dirty_after {
            *self.dirty_after.entry(k).or_insert(0) += v;
        }
    }

    pub fn to_json(&self, wall_s: f64, required: &[&str]) -> String {
        let mut s = String::new();
        s.push_str("{\n");
        s.push_str(&format!(" \"property\": {},\n", jstr(&self.prop)));
        s.push_str(&format!(" \"build\": {},\n", jstr(&self.build)));
        s.push_str(&format!(" \"tier\": {},\n", jstr(self.tier.name())));
        s.push_str(&format!(" \"seed\": {},\n", self.seed));
        s.push_str(&format!(" \"workers\": {},\n", self.nworkers));
        s.push_str(&format!(" \"wall_s\": {:.3},\n", wall_s));
        s.push_str(&format!(" \"evaluations\": {},\n", self.evaluations));
        s.push_str(&format!(" \"distinct_nontrivial\": {},\n", self.distinct.len()));
        s.push_str(&format!(" \"distinct_states\": {},\n", self.states.len()));
        s.push_str(&format!(" \"max_len\": {},\n", self.max_len));
        s.push_str(&format!(" \"panics_expected_observed\": {},\n", self.panics_expected));
        s.push_str(&format!(" \"histories\": {},\n", self.histories));
        s.push_str(&format!(" \"battery_full\": {},\n", self.battery_full));
        s.push_str(&format!(" \"battery_lite\": {},\n", self.battery_lite));
        s.push_str(&format!(" \"observer_calls\": {},\n", self.observer_calls));
        s.push_str(&format!(" \"type_pairs_covered\": {},\n", self.type_pairs.len()));
        s.push_str(" \"buckets\": {");
        let mut first = true;
        for (k, v) in &self.buckets {
            if !first {
                s.push_str(", ");
            }
            first = false;
            s.push_str(&format!("{}: {}", jstr(k), v));
        }
        s.push_str("},\n");
        s.push_str(" \"required_buckets\": [");
        s.push_str(&required.iter().map(|r| jstr(r)).collect::<Vec<_>>().join(", "));
        s.push_str("],\n");
        let missing: Vec<String> = required
            .iter()
            .filter(|r| self.buckets.get(**r).copied().unwrap_or(0) == 0)
            .map(|r| jstr(r))
            .collect();
        s.push_str(&format!(" \"missing_buckets\": [{}],\n", missing.join(", ")));
        s.push_str(" \"dirty_padding_after\": {");
        first = true;
        for (k, v) in &self.dirty_after {
            if !first {
                s.push_str(", ");
            }
            first = false;
            s.push_str(&format!("{}: {}", jstr(k), v));
        }
        s.push_str("},\n");
        s.push_str(" \"samples\": [");
        first = true;
        for (k, v) in &self.samples {
            for c in v {
                if !first {
                    s.push_str(", ");
                }
                first = false;
                s.push_str(&format!("{{\"workload\": {}, \"case\": {}}}", jstr(k), jstr(c)));
            }
        }
        s.push_str("],\n");
        s.push_str(" \"harness_errors\": [");
        s.push_str(&harness_errors().iter().map(|e| jstr(e)).collect::<Vec<_>>().join(", "));
        s.push_str("],\n");
        s.push_str(" \"violations\": [\n");
        first = true;
        for v in &self.violations {
            if !first {
                s.push_str(",\n");
            }
            first = false;
            s.push_str(&format!(
                "  {{\"check\": {}, \"sig\": {}, \"count\": {}, \"case\": {}, \"detail\": {}}}",
                jstr(&v.check),
                jstr(&v.sig),
                self.viol_counts.get(&v.sig).copied().unwrap_or(1),
                jstr(&v.case),
                jstr(&v.detail)
            ));
        }
        s.push_str("\n ]\n}\n");
        s
    }
}

pub fn jstr(s: &str) -> String {
    let mut o = String::with_capacity(s.len() + 2);
    o.push('"');
    for c in s.chars() {
        match c {
            '"' => o.push_str("\\\""),
            '\\' => o.push_str("\\\\"),
            '\n' => o.push_str("\\n"),
            '\r' => o.push_str("\\r"),
            '\t' => o.push_str("\\t"),
            c if (c as u32) < 0x20 => o.push_str(&format!("\\u{:04x}", c as u32)),
            c => o.push(c),
        }
    }
    o.push('"');
    o
}
