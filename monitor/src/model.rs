//! The trusted base: a bit vector is a `Vec<bool>` (index 0 = least significant bit); values are
//! `num_bigint::BigUint` (cross-checked against `u128` arithmetic whenever both apply).
//! Nothing here knows about words, masks or capacities.

use num_bigint::BigUint;
use std::fmt::{Binary, Display, LowerHex, Octal, UpperHex};

pub type Bits = Vec<bool>;

/// Raised (as a panic payload prefix) when the two oracles disagree: a harness error, which the
/// orchestrator maps to *inconclusive*, never to a violation.
pub const ORACLE_SELF_CHECK: &str = "ORACLE-SELF-CHECK";

pub fn zero() -> BigUint {
    BigUint::from(0u8)
}

pub fn val(bits: &[bool]) -> BigUint {
    // bytes little endian
    let mut bytes = vec![0u8; (bits.len() + 7) / 8];
    for (i, b) in bits.iter().enumerate() {
        if *b {
            bytes[i / 8] |= 1 << (i % 8);
        }
    }
    BigUint::from_bytes_le(&bytes)
}

pub fn from_val(v: &BigUint, n: usize) -> Bits {
    let bytes = v.to_bytes_le();
    (0..n)
        .map(|i| bytes.get(i / 8).map_or(false, |b| (b >> (i % 8)) & 1 == 1))
        .collect()
}

pub fn val128(bits: &[bool]) -> Option<u128> {
    if sig_bits(bits) > 128 {
        return None;
    }
    let mut v = 0u128;
    for (i, b) in bits.iter().enumerate().take(128) {
        if *b {
            v |= 1u128 << i;
        }
    }
    Some(v)
}

pub fn from_u128(x: u128, n: usize) -> Bits {
    (0..n).map(|i| i < 128 && (x >> i) & 1 == 1).collect()
}

pub fn mask128(n: usize) -> u128 {
    if n >= 128 {
        u128::MAX
    } else {
        (1u128 << n) - 1
    }
}

/// MSB-first text form used in case encodings ("" for the empty vector is written as "e").
pub fn to_str(bits: &[bool]) -> String {
    if bits.is_empty() {
        return "e".to_string();
    }
    bits.iter().rev().map(|b| if *b { '1' } else { '0' }).collect()
}

pub fn from_str(s: &str) -> Bits {
    if s == "e" {
        return vec![];
    }
    s.chars().rev().map(|c| c == '1').collect()
}

pub fn sig_bits(bits: &[bool]) -> usize {
    bits.iter().rposition(|b| *b).map_or(0, |p| p + 1)
}
pub fn leading_zeros(bits: &[bool]) -> usize {
    bits.iter().rev().take_while(|b| !**b).count()
}
pub fn leading_ones(bits: &[bool]) -> usize {
    bits.iter().rev().take_while(|b| **b).count()
}
pub fn trailing_zeros(bits: &[bool]) -> usize {
    bits.iter().take_while(|b| !**b).count()
}
pub fn trailing_ones(bits: &[bool]) -> usize {
    bits.iter().take_while(|b| **b).count()
}
pub fn is_zero(bits: &[bool]) -> bool {
    bits.iter().all(|b| !*b)
}
pub fn popcount(bits: &[bool]) -> usize {
    bits.iter().filter(|b| **b).count()
}

#[derive(Clone, Copy, PartialEq, Eq, Debug, Hash)]
pub enum Op {
    Add,
    Sub,
    Mul,
    Div,
    Rem,
    And,
    Or,
    Xor,
}

pub const ALL_OPS: [Op; 8] = [
    Op::Add,
    Op::Sub,
    Op::Mul,
    Op::Div,
    Op::Rem,
    Op::And,
    Op::Or,
    Op::Xor,
];

impl Op {
    pub fn name(self) -> &'static str {
        match self {
            Op::Add => "add",
            Op::Sub => "sub",
            Op::Mul => "mul",
            Op::Div => "div",
            Op::Rem => "rem",
            Op::And => "and",
            Op::Or => "or",
            Op::Xor => "xor",
        }
    }
    pub fn parse(s: &str) -> Option<Op> {
        ALL_OPS.iter().copied().find(|o| o.name() == s)
    }
}

/// Expected result of `a op b` at a's length; `None` when the operation must panic (zero divisor).
pub fn binop(op: Op, a: &[bool], b: &[bool]) -> Option<Bits> {
    let n = a.len();
    let r = match op {
        Op::And => (0..n).map(|i| a[i] & b.get(i).copied().unwrap_or(false)).collect(),
        Op::Or => (0..n).map(|i| a[i] | b.get(i).copied().unwrap_or(false)).collect(),
        Op::Xor => (0..n).map(|i| a[i] ^ b.get(i).copied().unwrap_or(false)).collect(),
        Op::Add | Op::Sub | Op::Mul | Op::Div | Op::Rem => {
            let va = val(a);
            let vb = val(b);
            if matches!(op, Op::Div | Op::Rem) && vb == zero() {
                return None;
            }
            let modulus = BigUint::from(1u8) << n;
            let r = match op {
                Op::Add => (&va + &vb) % &modulus,
                Op::Sub => ((&va + &modulus) - (&vb % &modulus)) % &modulus,
                Op::Mul => (&va * &vb) % &modulus,
                Op::Div => &va / &vb,
                Op::Rem => &va % &vb,
                _ => unreachable!(),
            };
            let bits = from_val(&r, n);
            // second oracle: native u128 arithmetic whenever everything fits
            if n <= 128 {
                if let (Some(xa), Some(xb)) = (val128(a), val128(b)) {
                    let m = mask128(n);
                    let x = match op {
                        Op::Add => xa.wrapping_add(xb) & m,
                        Op::Sub => xa.wrapping_sub(xb) & m,
                        Op::Mul => xa.wrapping_mul(xb) & m,
                        Op::Div => xa / xb,
                        Op::Rem => xa % xb,
                        _ => unreachable!(),
                    };
                    if from_u128(x, n) != bits {
                        panic!("{}: {:?} {} {}", ORACLE_SELF_CHECK, op, to_str(a), to_str(b));
                    }
                }
            }
            bits
        }
    };
    Some(r)
}

pub fn not(a: &[bool]) -> Bits {
    a.iter().map(|b| !*b).collect()
}

/// Logical shift left (towards the most significant end) by k.
pub fn shl(a: &[bool], k: u128) -> Bits {
    let n = a.len();
    (0..n)
        .map(|i| {
            if (i as u128) >= k {
                a[i - k as usize]
            } else {
                false
            }
        })
        .collect()
}

pub fn shr(a: &[bool], k: u128) -> Bits {
    let n = a.len();
    (0..n)
        .map(|i| {
            // k may be as large as u128::MAX: the index must not wrap
            match (i as u128).checked_add(k) {
                Some(j) if j < n as u128 => a[j as usize],
                _ => false,
            }
        })
        .collect()
}

/// rotl: bit i moves to (i+k) mod n == Vec::rotate_right on an LSB-first vector
pub fn rotl(a: &[bool], k: usize) -> Bits {
    let mut v = a.to_vec();
    if !v.is_empty() {
        let n = v.len();
        v.rotate_right(k % n);
    }
    v
}
pub fn rotr(a: &[bool], k: usize) -> Bits {
    let mut v = a.to_vec();
    if !v.is_empty() {
        let n = v.len();
        v.rotate_left(k % n);
    }
    v
}

pub fn bytes_le(bits: &[bool]) -> Vec<u8> {
    let mut bytes = vec![0u8; (bits.len() + 7) / 8];
    for (i, b) in bits.iter().enumerate() {
        if *b {
            bytes[i / 8] |= 1 << (i % 8);
        }
    }
    bytes
}
pub fn bytes_be(bits: &[bool]) -> Vec<u8> {
    let mut v = bytes_le(bits);
    v.reverse();
    v
}
pub fn from_bytes_le(bytes: &[u8]) -> Bits {
    (0..bytes.len() * 8)
        .map(|i| (bytes[i / 8] >> (i % 8)) & 1 == 1)
        .collect()
}

/// The fixed matrix of literal format specifications (C14). One list generates both the spec
/// names and the code applying them, so bva and the integer oracle see the same literal strings.
macro_rules! fmt_matrix {
    ($names:ident, $f:ident; $($spec:literal),+ $(,)?) => {
        pub const $names: &[&str] = &[$($spec),+];
        pub fn $f<T: Display + Binary + Octal + LowerHex + UpperHex>(v: &T) -> Vec<String> {
            vec![$(format!($spec, v)),+]
        }
    };
}

// the battery's matrix (every observer is run twice per battery, so this one stays moderate)
fmt_matrix!(
    FMT_SPECS, fmt_all;
    "{}", "{:b}", "{:o}", "{:x}", "{:X}", "{:#b}", "{:#o}", "{:#x}", "{:#X}", "{:+}", "{:+x}",
    "{:08}", "{:#010b}", "{:#06x}", "{:+#012o}", "{:>10}", "{:<10x}", "{:^10X}", "{:*^13b}",
    "{:->+9}", "{:_<#8o}", "{:0>6}", "{:1}", "{:40b}", "{:#034b}", "{:^#12o}", "{:+08X}",
    "{:#04x}", "{:.3}", "{:+#}", "{:010o}", "{:~>#7X}", "{:<01}", "{:#066b}",
);


/// Power-of-two radixes only (long vectors: bva's decimal conversion is quadratic in the length).
pub fn fmt_nodec<T: Display + Binary + Octal + LowerHex + UpperHex>(v: &T) -> Vec<String> {
    vec![
        format!("{:b}", v),
        format!("{:#o}", v),
        format!("{:x}", v),
        format!("{:#X}", v),
        format!("{:+#010b}", v),
        format!("{:^20o}", v),
    ]
}

/// Only the five plain specs (used by the lite battery).
pub fn fmt_lite<T: Display + Binary + Octal + LowerHex + UpperHex>(v: &T) -> Vec<String> {
    vec![
        format!("{}", v),
        format!("{:b}", v),
        format!("{:o}", v),
        format!("{:x}", v),
        format!("{:#X}", v),
    ]
}

/// Oracle strings for the whole matrix from the model bits.
pub fn fmt_oracle(bits: &[bool], lite: bool) -> Vec<String> {
    let big = val(bits);
    let a = if lite { fmt_lite(&big) } else { fmt_all(&big) };
    if let Some(x) = val128(bits) {
        let b = if lite { fmt_lite(&x) } else { fmt_all(&x) };
        if a != b {
            panic!("{}: format oracles disagree on {}", ORACLE_SELF_CHECK, to_str(bits));
        }
    }
    a
}

/// Oracle strings for slice `sel` of `of` of the complete C14 matrix (see fmtgen.rs).
pub fn fmt_full_oracle(bits: &[bool], sel: usize, of: usize) -> Vec<(usize, String)> {
    let big = val(bits);
    let a = crate::fmtgen::fmt_full_sel(&big, sel, of);
    if let Some(x) = val128(bits) {
        if a != crate::fmtgen::fmt_full_sel(&x, sel, of) {
            panic!("{}: format oracles disagree on {}", ORACLE_SELF_CHECK, to_str(bits));
        }
    }
    a
}

pub fn hash64(data: &[u8]) -> u64 {
    // FNV-1a, only used for case signatures / state accounting
    let mut h = 0xcbf2_9ce4_8422_2325u64;
    for b in data {
        h ^= *b as u64;
        h = h.wrapping_mul(0x0000_0100_0000_01B3);
    }
    h
}

pub fn hash_bits(bits: &[bool]) -> u64 {
    let mut v = bytes_le(bits);
    v.extend_from_slice(&(bits.len() as u64).to_le_bytes());
    hash64(&v)
}
