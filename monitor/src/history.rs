//! Histories: replayable sequences of public operations applied to one subject, with the shadow
//! model applied in lock-step. Used by C03 (no hidden state), C07 (edits), C18 (capacity).

use crate::case::{hex_dec, hex_enc};
use crate::exec::{guarded, PanicInfo};
use crate::gen;
use crate::model::{self, Bits, Op};
use crate::rng::Rng;
use crate::spec::{build, Spec, Via, VIAS_BASIC};
use crate::types::*;
use crate::with_type;

#[derive(Clone, Debug, PartialEq, Eq)]
pub enum Step {
    Set(usize, bool),
    Push(bool),
    Pop,
    Resize(usize, bool),
    Truncate(usize),
    SignExtend(usize),
    Append(Spec),
    Prepend(Spec),
    Insert(usize, Spec),
    /// extend from an iterator with size_hint kind 0 exact / 1 (0,Some(rem)) / 2 (0,None) / 3 (0,Some(MAX)) / 4 (rem/2,None) /
    /// 5 (rem/2,Some(MAX)) / 6 (min(rem,1),Some(MAX-3))
    Extend(Bits, u8),
    /// subject := collect()
    Collect(Bits, u8),
    SplitOff(usize),
    Bin(Op, Form, Spec),
    BinUint(Op, Form, UInt),
    Not(bool),
    Shift(bool, Form, UInt),
    ShIn(bool, bool),
    Rot(bool, usize),
    CopyRange(usize, usize),
    Reserve(usize),
    Shrink,
    CloneIt,
    Conv(usize, bool),
    /// subject := read(bytes, len, big?)
    Read(Vec<u8>, usize, bool),
    FromBytes(Vec<u8>, bool),
    FromBinary(Bits),
    FromHex(String),
    WriteRead(bool),
    FromUint(UInt),
    Zeros(usize),
    Ones(usize),
    WithCapacity(usize),
    Rebuild,
}

fn b01(b: bool) -> &'static str {
    if b {
        "1"
    } else {
        "0"
    }
}

impl Step {
    pub fn name(&self) -> &'static str {
        match self {
            Step::Set(..) => "set",
            Step::Push(..) => "push",
            Step::Pop => "pop",
            Step::Resize(..) => "resize",
            Step::Truncate(..) => "truncate",
            Step::SignExtend(..) => "sign_extend",
            Step::Append(..) => "append",
            Step::Prepend(..) => "prepend",
            Step::Insert(..) => "insert",
            Step::Extend(..) => "extend",
            Step::Collect(..) => "collect",
            Step::SplitOff(..) => "split_off",
            Step::Bin(op, ..) => op.name(),
            Step::BinUint(op, ..) => op.name(),
            Step::Not(..) => "not",
            Step::Shift(l, ..) => {
                if *l {
                    "shl"
                } else {
                    "shr"
                }
            }
            Step::ShIn(l, ..) => {
                if *l {
                    "shl_in"
                } else {
                    "shr_in"
                }
            }
            Step::Rot(l, ..) => {
                if *l {
                    "rotl"
                } else {
                    "rotr"
                }
            }
            Step::CopyRange(..) => "copy_range",
            Step::Reserve(..) => "reserve",
            Step::Shrink => "shrink_to_fit",
            Step::CloneIt => "clone",
            Step::Conv(..) => "convert-roundtrip",
            Step::Read(..) => "read",
            Step::FromBytes(..) => "from_bytes",
            Step::FromBinary(..) => "from_binary",
            Step::FromHex(..) => "from_hex",
            Step::WriteRead(..) => "write-read",
            Step::FromUint(..) => "from_uint",
            Step::Zeros(..) => "zeros",
            Step::Ones(..) => "ones",
            Step::WithCapacity(..) => "with_capacity",
            Step::Rebuild => "new(into_inner)",
        }
    }

    /// class of the step for the "mutator class followed by observer" accounting
    pub fn class(&self) -> &'static str {
        match self {
            Step::Set(..) | Step::Push(..) | Step::Pop | Step::Resize(..) | Step::Truncate(..) | Step::SignExtend(..) => "edit",
            Step::Append(..) | Step::Prepend(..) | Step::Insert(..) | Step::Extend(..) | Step::Collect(..) | Step::SplitOff(..) | Step::CopyRange(..) => "splice",
            Step::Bin(op, ..) | Step::BinUint(op, ..) => match op {
                Op::And | Op::Or | Op::Xor => "logic",
                Op::Div | Op::Rem => "division",
                _ => "arith",
            },
            Step::Not(..) => "logic",
            Step::Shift(..) | Step::ShIn(..) | Step::Rot(..) => "shift",
            Step::Reserve(..) | Step::Shrink | Step::WithCapacity(..) => "capacity",
            Step::CloneIt | Step::Conv(..) | Step::Rebuild | Step::FromUint(..) => "convert",
            Step::Read(..) | Step::FromBytes(..) | Step::WriteRead(..) => "io",
            Step::FromBinary(..) | Step::FromHex(..) => "parse",
            Step::Zeros(..) | Step::Ones(..) => "construct",
        }
    }

    pub fn enc(&self) -> String {
        match self {
            Step::Set(i, b) => format!("set,{},{}", i, b01(*b)),
            Step::Push(b) => format!("push,{}", b01(*b)),
            Step::Pop => "pop".into(),
            Step::Resize(n, b) => format!("resize,{},{}", n, b01(*b)),
            Step::Truncate(n) => format!("truncate,{}", n),
            Step::SignExtend(n) => format!("signext,{}", n),
            Step::Append(s) => format!("append,{}", s.enc()),
            Step::Prepend(s) => format!("prepend,{}", s.enc()),
            Step::Insert(i, s) => format!("insert,{},{}", i, s.enc()),
            Step::Extend(b, h) => format!("extend,{},{}", model::to_str(b), h),
            Step::Collect(b, h) => format!("collect,{},{}", model::to_str(b), h),
            Step::SplitOff(i) => format!("splitoff,{}", i),
            Step::Bin(op, f, s) => format!("bin,{},{},{}", op.name(), f.name(), s.enc()),
            Step::BinUint(op, f, x) => format!("binuint,{},{},{}", op.name(), f.name(), x.enc()),
            Step::Not(r) => format!("not,{}", b01(*r)),
            Step::Shift(l, f, k) => format!("shift,{},{},{}", b01(*l), f.name(), k.enc()),
            Step::ShIn(l, b) => format!("shin,{},{}", b01(*l), b01(*b)),
            Step::Rot(l, k) => format!("rot,{},{}", b01(*l), k),
            Step::CopyRange(s, e) => format!("copyrange,{},{}", s, e),
            Step::Reserve(k) => format!("reserve,{}", k),
            Step::Shrink => "shrink".into(),
            Step::CloneIt => "clone".into(),
            Step::Conv(t, v) => format!("conv,{},{}", t, b01(*v)),
            Step::Read(b, n, big) => format!("read,{},{},{}", hex_enc(b), n, b01(*big)),
            Step::FromBytes(b, big) => format!("frombytes,{},{}", hex_enc(b), b01(*big)),
            Step::FromBinary(b) => format!("frombinary,{}", model::to_str(b)),
            Step::FromHex(s) => format!("fromhex,{}", if s.is_empty() { "-" } else { s }),
            Step::WriteRead(big) => format!("writeread,{}", b01(*big)),
            Step::FromUint(x) => format!("fromuint,{}", x.enc()),
            Step::Zeros(n) => format!("zeros,{}", n),
            Step::Ones(n) => format!("ones,{}", n),
            Step::WithCapacity(n) => format!("withcap,{}", n),
            Step::Rebuild => "rebuild".into(),
        }
    }

    pub fn dec(s: &str) -> Option<Step> {
        let p: Vec<&str> = s.split(',').collect();
        let b = |x: &str| x == "1";
        let u = |x: &str| x.parse::<usize>().ok();
        Some(match p[0] {
            "set" => Step::Set(u(p[1])?, b(p[2])),
            "push" => Step::Push(b(p[1])),
            "pop" => Step::Pop,
            "resize" => Step::Resize(u(p[1])?, b(p[2])),
            "truncate" => Step::Truncate(u(p[1])?),
            "signext" => Step::SignExtend(u(p[1])?),
            "append" => Step::Append(Spec::dec(p[1])?),
            "prepend" => Step::Prepend(Spec::dec(p[1])?),
            "insert" => Step::Insert(u(p[1])?, Spec::dec(p[2])?),
            "extend" => Step::Extend(model::from_str(p[1]), p[2].parse().ok()?),
            "collect" => Step::Collect(model::from_str(p[1]), p[2].parse().ok()?),
            "splitoff" => Step::SplitOff(u(p[1])?),
            "bin" => Step::Bin(Op::parse(p[1])?, Form::parse(p[2])?, Spec::dec(p[3])?),
            "binuint" => Step::BinUint(Op::parse(p[1])?, Form::parse(p[2])?, UInt::dec(p[3])?),
            "not" => Step::Not(b(p[1])),
            "shift" => Step::Shift(b(p[1]), Form::parse(p[2])?, UInt::dec(p[3])?),
            "shin" => Step::ShIn(b(p[1]), b(p[2])),
            "rot" => Step::Rot(b(p[1]), u(p[2])?),
            "copyrange" => Step::CopyRange(u(p[1])?, u(p[2])?),
            "reserve" => Step::Reserve(u(p[1])?),
            "shrink" => Step::Shrink,
            "clone" => Step::CloneIt,
            "conv" => Step::Conv(u(p[1])?, b(p[2])),
            "read" => Step::Read(hex_dec(p[1]), u(p[2])?, b(p[3])),
            "frombytes" => Step::FromBytes(hex_dec(p[1]), b(p[2])),
            "frombinary" => Step::FromBinary(model::from_str(p[1])),
            "fromhex" => Step::FromHex(if p[1] == "-" { String::new() } else { p[1].to_string() }),
            "writeread" => Step::WriteRead(b(p[1])),
            "fromuint" => Step::FromUint(UInt::dec(p[1])?),
            "zeros" => Step::Zeros(u(p[1])?),
            "ones" => Step::Ones(u(p[1])?),
            "withcap" => Step::WithCapacity(u(p[1])?),
            "rebuild" => Step::Rebuild,
            _ => return None,
        })
    }
}

pub fn enc_steps(steps: &[Step]) -> String {
    if steps.is_empty() {
        return "-".into();
    }
    steps.iter().map(|s| s.enc()).collect::<Vec<_>>().join(";")
}

pub fn dec_steps(s: &str) -> Option<Vec<Step>> {
    if s == "-" {
        return Some(vec![]);
    }
    s.split(';').map(Step::dec).collect()
}

/// What a step returned (besides its effect on the subject).
#[derive(Clone, Debug, PartialEq, Eq)]
pub enum Ret {
    None,
    Bit(Option<bool>),
    /// the operation does not apply (conversion reported an error, type has no such method)
    Skipped,
}

/// Model effect. `None` in the bits position means "bits not asserted" (never produced today).
pub fn apply_model<A: Subject>(m: &mut Bits, step: &Step) -> Ret {
    match step {
        Step::Set(i, b) => {
            m[*i] = *b;
            Ret::None
        }
        Step::Push(b) => {
            m.push(*b);
            Ret::None
        }
        Step::Pop => Ret::Bit(m.pop()),
        Step::Resize(n, b) => {
            m.resize(*n, *b);
            Ret::None
        }
        Step::Truncate(n) => {
            m.truncate(*n);
            Ret::None
        }
        Step::SignExtend(n) => {
            if *n > m.len() {
                let s = m.last().copied().unwrap_or(false);
                m.resize(*n, s);
            }
            Ret::None
        }
        Step::Append(s) => {
            m.extend_from_slice(&s.bits);
            Ret::None
        }
        Step::Prepend(s) => {
            let mut v = s.bits.clone();
            v.extend_from_slice(m);
            *m = v;
            Ret::None
        }
        Step::Insert(i, s) => {
            let tail = m.split_off(*i);
            m.extend_from_slice(&s.bits);
            m.extend_from_slice(&tail);
            Ret::None
        }
        Step::Extend(b, _) => {
            m.extend_from_slice(b);
            Ret::None
        }
        Step::Collect(b, _) => {
            *m = b.clone();
            Ret::None
        }
        Step::SplitOff(i) => {
            m.truncate(*i);
            Ret::None
        }
        Step::Bin(op, _, s) => {
            *m = model::binop(*op, m, &s.bits).expect("HARNESS-ERROR: history generated a zero divisor");
            Ret::None
        }
        Step::BinUint(op, _, x) => {
            let xb = model::from_u128(x.val(), x.ty().bits());
            *m = model::binop(*op, m, &xb).expect("HARNESS-ERROR: history generated a zero divisor");
            Ret::None
        }
        Step::Not(_) => {
            *m = model::not(m);
            Ret::None
        }
        Step::Shift(l, _, k) => {
            *m = if *l { model::shl(m, k.val()) } else { model::shr(m, k.val()) };
            Ret::None
        }
        Step::ShIn(l, b) => {
            let n = m.len();
            if n == 0 {
                return Ret::Bit(Some(*b));
            }
            if *l {
                let out = m[n - 1];
                m.pop();
                m.insert(0, *b);
                Ret::Bit(Some(out))
            } else {
                let out = m.remove(0);
                m.push(*b);
                Ret::Bit(Some(out))
            }
        }
        Step::Rot(l, k) => {
            *m = if *l { model::rotl(m, *k) } else { model::rotr(m, *k) };
            Ret::None
        }
        Step::CopyRange(s, e) => {
            *m = m[*s..*e].to_vec();
            Ret::None
        }
        Step::Reserve(_) | Step::Shrink | Step::CloneIt | Step::Conv(..) | Step::WriteRead(_) | Step::Rebuild => Ret::None,
        Step::Read(bytes, len, big) => {
            let mut le = bytes.clone();
            if *big {
                le.reverse();
            }
            let mut bits = model::from_bytes_le(&le);
            bits.truncate(*len);
            *m = bits;
            Ret::None
        }
        Step::FromBytes(bytes, big) => {
            let mut le = bytes.clone();
            if *big {
                le.reverse();
            }
            *m = model::from_bytes_le(&le);
            Ret::None
        }
        Step::FromBinary(b) => {
            *m = b.clone();
            Ret::None
        }
        Step::FromHex(s) => {
            let mut bits = vec![];
            for c in s.chars().rev() {
                let d = c.to_digit(16).expect("HARNESS-ERROR: bad hex digit in history");
                for i in 0..4 {
                    bits.push((d >> i) & 1 == 1);
                }
            }
            *m = bits;
            Ret::None
        }
        Step::FromUint(x) => {
            let w = x.ty().bits();
            let (len, ok) = match A::FIXED_CAP {
                Some(c) => {
                    let sig = 128 - x.val().leading_zeros() as usize;
                    (w.min(c), sig <= c)
                }
                None => (w, true),
            };
            if ok {
                *m = model::from_u128(x.val(), len);
                Ret::None
            } else {
                Ret::Skipped
            }
        }
        Step::Zeros(n) => {
            *m = vec![false; *n];
            Ret::None
        }
        Step::Ones(n) => {
            *m = vec![true; *n];
            Ret::None
        }
        Step::WithCapacity(_) => {
            m.clear();
            Ret::None
        }
    }
}

struct HintIter {
    bits: Bits,
    pos: usize,
    kind: u8,
}

impl Iterator for HintIter {
    type Item = Bit;
    fn next(&mut self) -> Option<Bit> {
        let b = self.bits.get(self.pos).copied();
        self.pos += 1;
        b.map(bit)
    }
    fn size_hint(&self) -> (usize, Option<usize>) {
        let rem = self.bits.len().saturating_sub(self.pos);
        match self.kind {
            0 => (rem, Some(rem)),
            1 => (0, Some(rem)),
            2 => (0, None),
            // the shapes of filter / take_while / chain adaptors over huge ranges: a lower bound that under-reports, an
            // upper bound that is absent or astronomically large (all within the Iterator contract)
            3 => (0, Some(usize::MAX)),
            4 => (rem / 2, None),
            5 => (rem / 2, Some(usize::MAX)),
            _ => (rem.min(1), Some(usize::MAX - 3)),
        }
    }
}

/// Apply the step to the real subject (the caller wraps this in `guarded`).
pub fn apply_real<A: Subject + AllPairs>(a: &mut A, step: &Step) -> Ret {
    match step {
        Step::Set(i, b) => {
            a.set(*i, bit(*b));
            Ret::None
        }
        Step::Push(b) => {
            a.push(bit(*b));
            Ret::None
        }
        Step::Pop => Ret::Bit(a.pop().map(unbit)),
        Step::Resize(n, b) => {
            a.resize(*n, bit(*b));
            Ret::None
        }
        Step::Truncate(n) => {
            a.truncate(*n);
            Ret::None
        }
        Step::SignExtend(n) => {
            a.sign_extend(*n);
            Ret::None
        }
        Step::Append(s) => {
            with_type!(s.ty, B, {
                let (b, _) = build::<B>(s);
                a.append(&b);
            });
            Ret::None
        }
        Step::Prepend(s) => {
            with_type!(s.ty, B, {
                let (b, _) = build::<B>(s);
                a.prepend(&b);
            });
            Ret::None
        }
        Step::Insert(i, s) => {
            with_type!(s.ty, B, {
                let (b, _) = build::<B>(s);
                a.insert(*i, &b);
            });
            Ret::None
        }
        Step::Extend(b, h) => {
            a.extend_bits(HintIter { bits: b.clone(), pos: 0, kind: *h });
            Ret::None
        }
        Step::Collect(b, h) => {
            *a = A::collect_bits(HintIter { bits: b.clone(), pos: 0, kind: *h });
            Ret::None
        }
        Step::SplitOff(i) => {
            let _high = a.split_off(*i);
            Ret::None
        }
        Step::Bin(op, f, s) => {
            with_type!(s.ty, B, {
                let (b, _) = build::<B>(s);
                *a = <A as Pair<B>>::bin(a, *op, *f, &b);
            });
            Ret::None
        }
        Step::BinUint(op, f, x) => {
            *a = A::bin_uint(a, *op, *f, *x);
            Ret::None
        }
        Step::Not(r) => {
            *a = if *r { a.not_r() } else { a.clone().not_v() };
            Ret::None
        }
        Step::Shift(l, f, k) => {
            *a = A::shift(a, *l, *f, *k);
            Ret::None
        }
        Step::ShIn(l, b) => Ret::Bit(Some(unbit(if *l { a.shl_in(bit(*b)) } else { a.shr_in(bit(*b)) }))),
        Step::Rot(l, k) => {
            if *l {
                a.rotl(*k)
            } else {
                a.rotr(*k)
            }
            Ret::None
        }
        Step::CopyRange(s, e) => {
            *a = a.copy_range(*s..*e);
            Ret::None
        }
        Step::Reserve(k) => {
            if a.reserve_x(*k) {
                Ret::None
            } else {
                Ret::Skipped
            }
        }
        Step::Shrink => {
            if a.shrink_x() {
                Ret::None
            } else {
                Ret::Skipped
            }
        }
        Step::CloneIt => {
            *a = a.clone();
            Ret::None
        }
        Step::Conv(t, v) => match a.roundtrip_via(*t, *v) {
            Some(Ok(x)) => {
                *a = x;
                Ret::None
            }
            Some(Err(e)) => panic!("conversion back from {} failed: {}", TYPE_NAMES[*t], e),
            None => Ret::Skipped,
        },
        Step::Read(bytes, len, big) => {
            let mut cur = std::io::Cursor::new(bytes.clone());
            *a = A::read(&mut cur, *len, if *big { Endianness::Big } else { Endianness::Little }).expect("read of a complete buffer failed");
            Ret::None
        }
        Step::FromBytes(bytes, big) => {
            *a = A::from_bytes(bytes, if *big { Endianness::Big } else { Endianness::Little }).expect("from_bytes within capacity failed");
            Ret::None
        }
        Step::FromBinary(b) => {
            let s: String = b.iter().rev().map(|x| if *x { '1' } else { '0' }).collect();
            *a = A::from_binary(s).expect("from_binary of a valid string failed");
            Ret::None
        }
        Step::FromHex(s) => {
            *a = A::from_hex(s).expect("from_hex of a valid string failed");
            Ret::None
        }
        Step::WriteRead(big) => {
            let e = if *big { Endianness::Big } else { Endianness::Little };
            let mut buf = Vec::new();
            a.write(&mut buf, e).expect("write into a Vec failed");
            let mut cur = std::io::Cursor::new(buf);
            *a = A::read(&mut cur, a.len(), e).expect("read back failed");
            Ret::None
        }
        Step::FromUint(x) => match A::from_uint(*x, false) {
            Ok(v) => {
                *a = v;
                Ret::None
            }
            Err(_) => Ret::Skipped,
        },
        Step::Zeros(n) => {
            // both spellings of the constructor
            *a = if *n % 2 == 1 { A::repeat(Bit::Zero, *n) } else { A::zeros(*n) };
            Ret::None
        }
        Step::Ones(n) => {
            *a = if *n % 2 == 1 { A::repeat(Bit::One, *n) } else { A::ones(*n) };
            Ret::None
        }
        Step::WithCapacity(n) => {
            *a = A::with_capacity(*n);
            Ret::None
        }
        Step::Rebuild => match a.clone().rebuild() {
            Some(x) => {
                *a = x;
                Ret::None
            }
            None => Ret::Skipped,
        },
    }
}

pub fn apply_real_guarded<A: Subject + AllPairs>(a: &mut A, step: &Step) -> Result<Ret, PanicInfo> {
    guarded(|| apply_real(a, step))
}

// -------------------------------------------------------------------------------------------------
// generation
// -------------------------------------------------------------------------------------------------

#[derive(Clone, Copy, PartialEq, Eq, Debug)]
pub enum Mode {
    /// the complete public vocabulary (C03)
    All,
    /// editing operations only (C07)
    Edits,
    /// capacity management interleaved with edits and arithmetic (C18)
    Capacity,
}

fn via_for(ty: usize, rng: &mut Rng) -> Via {
    let v = *rng.pick(&VIAS_BASIC);
    match v {
        Via::Spare(_) if TYPE_FIXED_CAP[ty].is_some() => Via::Set,
        Via::Spare(_) => Via::Spare(*rng.pick(&[1usize, 63, 64, 65, 130, 300])),
        v => v,
    }
}

/// A right-hand operand for the subject: any type, length below / equal / above the subject's,
/// with set bits beyond the subject's length when longer.
fn operand(n: usize, max_len: usize, rng: &mut Rng) -> Spec {
    let ty = rng.below(NTYPES);
    let cap = TYPE_FIXED_CAP[ty].unwrap_or(max_len.max(n + 70));
    let m = match rng.below(6) {
        0 => 0,
        1 => n.min(cap),
        2 => (n + 1 + rng.below(70)).min(cap),
        3 => rng.below(n + 1).min(cap),
        4 => cap.min(n + 130),
        _ => gen::random_len(ty, max_len, rng),
    };
    let mut bits = gen::random_bits(m, rng);
    if m > n && rng.chance(2, 3) {
        for x in bits[n..].iter_mut() {
            if rng.chance(1, 2) {
                *x = true;
            }
        }
    }
    Spec::new(ty, bits, via_for(ty, rng))
}

/// An operand to splice in (append / prepend / insert): total must stay within `room`.
fn splice_operand(room: usize, rng: &mut Rng) -> Spec {
    let ty = rng.below(NTYPES);
    let cap = TYPE_FIXED_CAP[ty].unwrap_or(usize::MAX);
    let lim = room.min(cap);
    let m = match rng.below(6) {
        0 => 0,
        1 => 1.min(lim),
        2 => 8.min(lim),
        3 => (63 + rng.below(4)).min(lim),
        4 => lim.min(140),
        _ => rng.below(lim.min(200) + 1),
    };
    Spec::new(ty, gen::random_bits(m, rng), via_for(ty, rng))
}

fn small_uint(rng: &mut Rng) -> UInt {
    let ty = *rng.pick(&ALL_UTY);
    let v = match rng.below(5) {
        0 => 0,
        1 => 1,
        2 => ty.max(),
        3 => 1u128 << rng.below(ty.bits()),
        _ => rng.u128() & ty.max(),
    };
    ty.make(v)
}

/// Generate one valid step for a subject of type `ty` whose current length is `n`.
pub fn gen_step(ty: usize, n: usize, mode: Mode, max_len: usize, rng: &mut Rng) -> Step {
    let cap = TYPE_FIXED_CAP[ty];
    let limit = cap.unwrap_or(max_len);
    let room = limit.saturating_sub(n);
    let w = TYPE_WORD_BITS[ty];
    // a target length: around word boundaries, inline/heap limit, or uniform
    let target = |rng: &mut Rng| -> usize {
        let mut cands = vec![0usize, 1, n.saturating_sub(1), n + 1, (n / w) * w, (n / w + 1) * w, (n / w + 1) * w + 1, 64, 65, 127, 128, 129, 192, 193, limit, limit.saturating_sub(1)];
        cands.retain(|x| *x <= limit);
        if rng.chance(2, 3) {
            *rng.pick(&cands)
        } else {
            rng.below(limit + 1)
        }
    };
    loop {
        let choice = match mode {
            Mode::Edits => rng.below(13),
            Mode::Capacity => *rng.pick(&[
                0usize, 1, 2, 3, 4, 5, 6, 7, 8, 9, 10, 11, 12, 13, 14, 20, 20, 20, 20, 20, 21, 21, 21, 21, 33, 33, 15, 16, 17, 18, 19, 22, 22, 23, 24, 24, 25, 26, 27,
            ]),
            Mode::All => rng.below(34),
        };
        let step = match choice {
            0 if n > 0 => Step::Set(rng.below(n), rng.bool()),
            1 | 2 if room > 0 => Step::Push(rng.bool()),
            3 => Step::Pop,
            4 | 5 => Step::Resize(target(rng), rng.bool()),
            6 => Step::Truncate(if rng.chance(1, 4) { n + rng.below(5) } else { rng.below(n + 1) }),
            7 if n > 0 => Step::SignExtend(target(rng)),
            8 => Step::Append(splice_operand(room, rng)),
            9 => Step::Prepend(splice_operand(room, rng)),
            10 => Step::Insert(rng.below(n + 1), splice_operand(room, rng)),
            11 => {
                let k = rng.below(room.min(70) + 1);
                Step::Extend(gen::random_bits(k, rng), rng.below(7) as u8)
            }
            12 => {
                let k = match rng.below(3) {
                    0 => rng.below(limit.min(20) + 1),
                    1 => target(rng),
                    _ => rng.below(limit.min(300) + 1),
                };
                Step::Collect(gen::random_bits(k, rng), rng.below(7) as u8)
            }
            13 => Step::SplitOff(rng.below(n + 1)),
            14 | 15 | 16 => {
                let op = *rng.pick(&[Op::Add, Op::Sub, Op::Mul, Op::And, Op::Or, Op::Xor, Op::Or, Op::Xor, Op::Sub]);
                Step::Bin(op, ALL_FORMS[rng.below(6)], operand(n, max_len, rng))
            }
            17 => {
                let op = *rng.pick(&[Op::Add, Op::Sub, Op::Mul, Op::And, Op::Or, Op::Xor]);
                Step::BinUint(op, ALL_FORMS[rng.below(6)], small_uint(rng))
            }
            18 => {
                // division by a non-zero operand (vector or uint)
                if rng.bool() {
                    let mut s = operand(n, max_len, rng);
                    if model::is_zero(&s.bits) {
                        continue;
                    }
                    // D4 territory (divisor longer than capacity) is C02's business; keep it within
                    if let Some(c) = cap {
                        if s.bits.len() > c {
                            s.bits.truncate(c);
                            if model::is_zero(&s.bits) {
                                continue;
                            }
                        }
                    }
                    Step::Bin(*rng.pick(&[Op::Div, Op::Rem]), ALL_FORMS[rng.below(6)], s)
                } else {
                    let x = small_uint(rng);
                    if x.val() == 0 || cap.map_or(false, |c| x.ty().bits() > c) {
                        continue;
                    }
                    Step::BinUint(*rng.pick(&[Op::Div, Op::Rem]), ALL_FORMS[rng.below(6)], x)
                }
            }
            19 => Step::Not(rng.bool()),
            20 if cap.is_none() => Step::Reserve(*rng.pick(&[0usize, 1, 63, 64, 65, 128, 129, 200, 1000])),
            21 if cap.is_none() => Step::Shrink,
            22 => {
                let k = if rng.chance(3, 4) { rng.below(n + 2) as u128 } else { *rng.pick(&gen::hostile_amounts(n, w)) };
                let utys: Vec<UTy> = ALL_UTY.iter().copied().filter(|t| k <= t.max()).collect();
                // amounts >= 2^64 are C05's business (D7); keep histories below
                if k >= 1u128 << 64 {
                    continue;
                }
                Step::Shift(rng.bool(), ALL_FORMS[rng.below(6)], rng.pick(&utys).make(k))
            }
            23 => Step::ShIn(rng.bool(), rng.bool()),
            24 => Step::Rot(rng.bool(), rng.below(n + 1)),
            25 => {
                let s = rng.below(n + 1);
                let e = s + rng.below(n - s + 1);
                Step::CopyRange(s, e)
            }
            26 => Step::CloneIt,
            27 => Step::Conv(rng.below(NTYPES), rng.bool()),
            28 => {
                let len = target(rng);
                let nbytes = (len + 7) / 8;
                let bytes: Vec<u8> = (0..nbytes).map(|_| if rng.chance(1, 3) { 0xff } else { rng.next() as u8 }).collect();
                Step::Read(bytes, len, rng.bool())
            }
            29 => {
                let nbytes = rng.below(limit / 8 + 1).min(40);
                let bytes: Vec<u8> = (0..nbytes).map(|_| rng.next() as u8).collect();
                if rng.bool() {
                    Step::FromBytes(bytes, rng.bool())
                } else {
                    Step::WriteRead(rng.bool())
                }
            }
            30 => {
                if rng.bool() {
                    Step::FromBinary(gen::random_bits(target(rng), rng))
                } else {
                    let nd = rng.below(limit / 4 + 1).min(70);
                    let s: String = (0..nd).map(|_| *rng.pick(&['0', '1', '7', '8', '9', 'a', 'F', 'f', 'C', 'e'])).collect();
                    Step::FromHex(s)
                }
            }
            31 => Step::FromUint(small_uint(rng)),
            32 => match rng.below(3) {
                0 => Step::Zeros(target(rng)),
                1 => Step::Ones(target(rng)),
                _ => Step::Rebuild,
            },
            33 => Step::WithCapacity(*rng.pick(&[0usize, 1, 64, 128, 129, 200, 500])),
            _ => continue,
        };
        // room checks for splice steps
        let ok = match &step {
            Step::Append(s) | Step::Prepend(s) | Step::Insert(_, s) => s.bits.len() <= room,
            Step::Resize(t, _) | Step::SignExtend(t) => *t <= limit,
            Step::Collect(b, _) => b.len() <= limit,
            _ => true,
        };
        if ok {
            return step;
        }
    }
}
