//! Small deterministic PRNG (xoshiro256**, seeded by splitmix64). No external crate so that the
//! same generator runs unchanged under Miri / memcheck / ASan.

#[derive(Clone, Debug)]
pub struct Rng {
    s: [u64; 4],
}

fn splitmix(x: &mut u64) -> u64 {
    *x = x.wrapping_add(0x9E37_79B9_7F4A_7C15);
    let mut z = *x;
    z = (z ^ (z >> 30)).wrapping_mul(0xBF58_476D_1CE4_E5B9);
    z = (z ^ (z >> 27)).wrapping_mul(0x94D0_49BB_1331_11EB);
    z ^ (z >> 31)
}

impl Rng {
    pub fn new(seed: u64) -> Self {
        let mut x = seed ^ 0xD1B5_4A32_D192_ED03;
        let s = [
            splitmix(&mut x),
            splitmix(&mut x),
            splitmix(&mut x),
            splitmix(&mut x),
        ];
        Rng { s }
    }

    /// Independent stream derived from (seed, a, b).
    pub fn derive(seed: u64, a: u64, b: u64) -> Self {
        let mut x = seed;
        let k1 = splitmix(&mut x) ^ a.wrapping_mul(0x9E37_79B9_7F4A_7C15);
        let mut y = k1;
        let k2 = splitmix(&mut y) ^ b.wrapping_mul(0xC2B2_AE3D_27D4_EB4F);
        Rng::new(k2)
    }

    pub fn next(&mut self) -> u64 {
        let r = self.s[1].wrapping_mul(5).rotate_left(7).wrapping_mul(9);
        let t = self.s[1] << 17;
        self.s[2] ^= self.s[0];
        self.s[3] ^= self.s[1];
        self.s[1] ^= self.s[2];
        self.s[0] ^= self.s[3];
        self.s[2] ^= t;
        self.s[3] = self.s[3].rotate_left(45);
        r
    }

    pub fn u128(&mut self) -> u128 {
        ((self.next() as u128) << 64) | self.next() as u128
    }

    /// uniform in 0..n (n > 0)
    pub fn below(&mut self, n: usize) -> usize {
        debug_assert!(n > 0);
        (self.next() % n as u64) as usize
    }

    /// uniform in lo..=hi
    pub fn range(&mut self, lo: usize, hi: usize) -> usize {
        lo + self.below(hi - lo + 1)
    }

    pub fn chance(&mut self, num: u32, den: u32) -> bool {
        (self.next() % den as u64) < num as u64
    }

    pub fn bool(&mut self) -> bool {
        self.next() & 1 == 1
    }

    pub fn pick<'a, T>(&mut self, xs: &'a [T]) -> &'a T {
        &xs[self.below(xs.len())]
    }
}
