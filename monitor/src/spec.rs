//! Operand specifications: a (type, bits, production path) triple that can be written into a
//! replay string and rebuilt through bva's public API. Different production paths yield the same
//! (len, bits) through different code (and leave different things in padding / capacity), which
//! is exactly what "never on how the operands were produced" quantifies over.

use crate::exec::{guarded, PanicInfo};
use crate::model::{self, Bits};
use crate::types::*;

#[derive(Clone, Copy, Debug, PartialEq, Eq, Hash)]
pub enum Via {
    /// zeros(len) + set(i)
    Set,
    /// from_binary
    Bin,
    /// complement built with Set, then `!`
    NotInv,
    /// pushes, two extra pushes, two pops
    PushPop,
    /// longer vector with ones above, then truncate
    Trunc,
    /// Set, then reserve(k) (Bvd / Bv)
    Spare(usize),
    /// built long (ones above) then resized down: heap-stored `Bv` with a short length,
    /// `Bvd` with spare words that once held data
    HeapShort,
    /// from_bytes (little endian) then truncate
    Bytes,
    /// Set at len+3 with ones on top, then `>>`-free route: split_off keeps the low part
    SplitLow,
    // ---- produced by *operations* whose result is the requested value (what the operation leaves beyond `len` or in
    // spare words comes along): "however it was produced" for the observer properties
    /// y * 3 with the multiplier held by a long heap `Bvd`, y = bits * 3^-1 mod 2^n (the product wraps)
    MulHeap,
    /// (x + r) - r with r an all-ones `Bvd` 70 bits longer
    AddSub,
    /// (x ^ r) ^ r with r an all-ones `Bv` 130 bits longer
    XorLong,
    /// rotl(k) then rotr(k), k = n/3 + 1
    RotRound,
    /// shl_in of bit 0 into the vector holding bits 1.. (a one falls off the top)
    ShlIn,
    /// copy_range out of the middle of a longer vector with ones on both sides
    CopyMid,
    /// read() from bytes whose surplus high bits are set
    ReadSurplus,
}

/// The operation-produced paths.
pub const VIAS_OPS: [Via; 7] = [Via::MulHeap, Via::AddSub, Via::XorLong, Via::RotRound, Via::ShlIn, Via::CopyMid, Via::ReadSurplus];

/// Every production path (used by the checks of the observer properties, whose subject is "any vector, however produced").
pub const VIAS_ALL: [Via; 16] = [
    Via::Set, Via::Bin, Via::NotInv, Via::PushPop, Via::Trunc, Via::Spare(64), Via::HeapShort, Via::Bytes, Via::SplitLow,
    Via::MulHeap, Via::AddSub, Via::XorLong, Via::RotRound, Via::ShlIn, Via::CopyMid, Via::ReadSurplus,
];

pub const VIAS_BASIC: [Via; 9] = [
    Via::Set,
    Via::Bin,
    Via::NotInv,
    Via::PushPop,
    Via::Trunc,
    Via::Spare(64),
    Via::HeapShort,
    Via::Bytes,
    Via::SplitLow,
];

impl Via {
    pub fn enc(self) -> String {
        match self {
            Via::Set => "set".into(),
            Via::Bin => "bin".into(),
            Via::NotInv => "notinv".into(),
            Via::PushPop => "pushpop".into(),
            Via::Trunc => "trunc".into(),
            Via::Spare(k) => format!("spare{}", k),
            Via::HeapShort => "heapshort".into(),
            Via::Bytes => "bytes".into(),
            Via::SplitLow => "splitlow".into(),
            Via::MulHeap => "mulheap".into(),
            Via::AddSub => "addsub".into(),
            Via::XorLong => "xorlong".into(),
            Via::RotRound => "rotround".into(),
            Via::ShlIn => "shlin".into(),
            Via::CopyMid => "copymid".into(),
            Via::ReadSurplus => "readsurplus".into(),
        }
    }
    pub fn dec(s: &str) -> Option<Via> {
        Some(match s {
            "set" => Via::Set,
            "bin" => Via::Bin,
            "notinv" => Via::NotInv,
            "pushpop" => Via::PushPop,
            "trunc" => Via::Trunc,
            "heapshort" => Via::HeapShort,
            "bytes" => Via::Bytes,
            "splitlow" => Via::SplitLow,
            "mulheap" => Via::MulHeap,
            "addsub" => Via::AddSub,
            "xorlong" => Via::XorLong,
            "rotround" => Via::RotRound,
            "shlin" => Via::ShlIn,
            "copymid" => Via::CopyMid,
            "readsurplus" => Via::ReadSurplus,
            _ => {
                let k = s.strip_prefix("spare")?.parse::<usize>().ok()?;
                Via::Spare(k)
            }
        })
    }
}

#[derive(Clone, Debug, PartialEq, Eq)]
pub struct Spec {
    pub ty: usize,
    pub bits: Bits,
    pub via: Via,
}

impl Spec {
    pub fn new(ty: usize, bits: Bits, via: Via) -> Spec {
        Spec { ty, bits, via }
    }
    pub fn set(ty: usize, bits: Bits) -> Spec {
        Spec { ty, bits, via: Via::Set }
    }
    pub fn enc(&self) -> String {
        format!("{}/{}/{}", self.ty, self.via.enc(), model::to_str(&self.bits))
    }
    pub fn dec(s: &str) -> Option<Spec> {
        let mut it = s.split('/');
        let ty = it.next()?.parse::<usize>().ok()?;
        let via = Via::dec(it.next()?)?;
        let bits = model::from_str(it.next()?);
        if ty >= NTYPES {
            return None;
        }
        Some(Spec { ty, bits, via })
    }
    pub fn describe(&self) -> String {
        format!(
            "{}[len {} via {}]={}",
            TYPE_NAMES[self.ty],
            self.bits.len(),
            self.via.enc(),
            model::to_str(&self.bits)
        )
    }
    pub fn fits(&self) -> bool {
        TYPE_FIXED_CAP[self.ty].map_or(true, |c| self.bits.len() <= c)
    }
}

pub fn build_set<T: Subject>(bits: &[bool]) -> T {
    let mut x = T::zeros(bits.len());
    for (i, b) in bits.iter().enumerate() {
        if *b {
            x.set(i, Bit::One);
        }
    }
    x
}

fn build_via<T: Subject>(bits: &[bool], via: Via) -> T {
    let n = bits.len();
    let cap = T::FIXED_CAP;
    match via {
        Via::Set => build_set(bits),
        Via::Bin => {
            let s: String = bits.iter().rev().map(|b| if *b { '1' } else { '0' }).collect();
            T::from_binary(s).expect("operand path: from_binary rejected a valid string")
        }
        Via::NotInv => {
            let inv: Bits = bits.iter().map(|b| !*b).collect();
            let x: T = build_set(&inv);
            x.not_v()
        }
        Via::PushPop => {
            let mut x = T::with_capacity(0);
            for b in bits {
                x.push(bit(*b));
            }
            let extra = cap.map_or(2, |c| (c - n).min(2));
            for _ in 0..extra {
                x.push(Bit::One);
            }
            for _ in 0..extra {
                x.pop();
            }
            x
        }
        Via::Trunc => {
            let m = cap.map_or(n + 70, |c| (n + 9).min(c));
            let mut long = bits.to_vec();
            long.resize(m, true);
            let mut x: T = build_set(&long);
            x.truncate(n);
            x
        }
        Via::Spare(k) => {
            let mut x: T = build_set(bits);
            x.reserve_x(k);
            x
        }
        Via::HeapShort => {
            let m = cap.map_or(n + 200, |c| (n + 9).min(c));
            let mut long = bits.to_vec();
            long.resize(m, true);
            let mut x: T = build_set(&long);
            x.resize(n, Bit::Zero);
            x
        }
        Via::Bytes => {
            let nbytes = (n + 7) / 8;
            if cap.map_or(false, |c| nbytes * 8 > c) {
                return build_set(bits);
            }
            let mut long = bits.to_vec();
            long.resize(nbytes * 8, true);
            let mut x = T::from_bytes(model::bytes_le(&long), Endianness::Little)
                .expect("operand path: from_bytes rejected input within capacity");
            x.truncate(n);
            x
        }
        Via::SplitLow => {
            let m = cap.map_or(n + 67, |c| (n + 5).min(c));
            let mut long = bits.to_vec();
            long.resize(m, true);
            let mut x: T = build_set(&long);
            let _high = x.split_off(n);
            x
        }
        Via::MulHeap => {
            if n == 0 {
                return build_set(bits);
            }
            // y = bits * 3^-1 (mod 2^n), so that y * 3 wraps around to the requested value
            let modulus = num_bigint::BigUint::from(1u8) << n;
            let three = num_bigint::BigUint::from(3u8);
            let inv = three.modinv(&modulus).expect("HARNESS-ERROR: 3 is odd");
            let y = (model::val(bits) * inv) % &modulus;
            let ybits: Bits = (0..n).map(|i| y.bit(i as u64)).collect();
            let yv: T = build_set(&ybits);
            let mut m = vec![false; n + 200];
            m[0] = true;
            m[1] = true;
            let mv: Bvd = build_set(&m);
            T::with_bvd(&yv, model::Op::Mul, Form::RR, &mv)
        }
        Via::AddSub => {
            let r: Bvd = build_set(&vec![true; n + 70]);
            let x: T = build_set(bits);
            let x = T::with_bvd(&x, model::Op::Add, Form::AR, &r);
            T::with_bvd(&x, model::Op::Sub, Form::AR, &r)
        }
        Via::XorLong => {
            let r: Bv = build_set(&vec![true; n + 130]);
            let x: T = build_set(bits);
            let x = T::with_bv(&x, model::Op::Xor, Form::AR, &r);
            T::with_bv(&x, model::Op::Xor, Form::VR, &r)
        }
        Via::RotRound => {
            let mut x: T = build_set(bits);
            if n > 0 {
                let k = (n / 3 + 1).min(n);
                x.rotl(k);
                x.rotr(k);
            }
            x
        }
        Via::ShlIn => {
            if n == 0 {
                return build_set(bits);
            }
            let mut y: Bits = bits[1..].to_vec();
            y.push(true);
            let mut x: T = build_set(&y);
            x.shl_in(bit(bits[0]));
            x
        }
        Via::CopyMid => {
            let lo = 3usize;
            let hi = cap.map_or(67, |c| (c - n).saturating_sub(lo).min(67));
            if cap.map_or(false, |c| n + lo > c) {
                return build_set(bits);
            }
            let mut long = vec![true; lo];
            long.extend_from_slice(bits);
            long.resize(lo + n + hi, true);
            let src: T = build_set(&long);
            src.copy_range(lo..lo + n)
        }
        Via::ReadSurplus => {
            let nbytes = (n + 7) / 8;
            let mut long = bits.to_vec();
            long.resize(nbytes * 8, true);
            let bytes = model::bytes_le(&long);
            T::read(&mut &bytes[..], n, Endianness::Little).expect("operand path: read rejected input within capacity")
        }
    }
}

pub fn read_bits<T: Subject>(x: &T) -> Bits {
    (0..x.len()).map(|i| unbit(x.get(i))).collect()
}

/// Build the operand. If the production path panics or does not yield the requested bits (the
/// path itself is broken - which is some *other* property's business), fall back to zeros+set so
/// that the property under test is still judged on a correct operand. Returns (operand, fell_back).
pub fn build<T: Subject>(spec: &Spec) -> (T, bool) {
    debug_assert_eq!(spec.ty, T::IDX);
    if spec.via == Via::Set {
        return (build_set(&spec.bits), false);
    }
    let r = guarded(|| {
        let x: T = build_via(&spec.bits, spec.via);
        let ok = x.len() == spec.bits.len() && read_bits(&x) == spec.bits;
        (x, ok)
    });
    let name = match spec.via {
        Via::Spare(_) => "spare".to_string(),
        v => v.enc(),
    };
    match r {
        Ok((x, true)) => {
            VIA_COUNTS.with(|c| *c.borrow_mut().entry(format!("operand-path:{}:built", name)).or_insert(0) += 1);
            (x, false)
        }
        _ => {
            VIA_COUNTS.with(|c| *c.borrow_mut().entry(format!("operand-path:{}:fell-back-to-set", name)).or_insert(0) += 1);
            (build_set(&spec.bits), true)
        }
    }
}

thread_local! {
    /// per worker: how often each production path produced the operand / had to fall back (flushed into the run's buckets)
    static VIA_COUNTS: std::cell::RefCell<std::collections::BTreeMap<String, u64>> = const { std::cell::RefCell::new(std::collections::BTreeMap::new()) };
}

/// Take this thread's production-path counters (name, count).
pub fn take_via_counts() -> Vec<(String, u64)> {
    VIA_COUNTS.with(|c| std::mem::take(&mut *c.borrow_mut()).into_iter().collect())
}

/// Like `build` but without the fallback: used where the production path itself is under test.
pub fn build_raw<T: Subject>(spec: &Spec) -> Result<T, PanicInfo> {
    guarded(|| build_via(&spec.bits, spec.via))
}

/// Observable snapshot + diagnostic raw storage.
#[derive(Clone, Debug, PartialEq, Eq)]
pub struct Snap {
    pub len: usize,
    pub bits: Bits,
    pub cap: usize,
    pub raw: Raw,
}

pub fn snap<T: Subject>(x: &T) -> Result<Snap, PanicInfo> {
    guarded(|| {
        let len = x.len();
        let cap = x.capacity();
        let raw = x.raw();
        // a fixed vector with len > capacity cannot be read through get(); read what exists
        let readable = match T::FIXED_CAP {
            Some(c) => len.min(c),
            None => len,
        };
        let mut bits: Bits = (0..readable).map(|i| unbit(x.get(i))).collect();
        bits.resize(len.min(1 << 24), false);
        Snap { len, bits, cap, raw }
    })
}
