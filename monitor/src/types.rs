//! The type universe (16 concrete bit-vector types), and the thin, macro-generated glue that lets
//! the generic workload/monitor code call every operator form of bva on every (LHS, RHS) pairing.
//! `bva`'s `Integer` trait is crate-private, so client code cannot be generic over `Bvf<I, N>`;
//! everything type-specific is instantiated here by macro and exposed through `Subject` / `Pair`.

pub use bva::{Bit, BitIterator, BitVector, Bv, Bvd, Bvf, ConvertionError, Endianness};

use crate::model::Op;

pub const NTYPES: usize = 16;
pub const IDX_BVD: usize = 14;
pub const IDX_BV: usize = 15;

pub type T0 = Bvf<u8, 1>;
pub type T1 = Bvf<u8, 2>;
pub type T2 = Bvf<u8, 7>;
pub type T3 = Bvf<u16, 1>;
pub type T4 = Bvf<u16, 3>;
pub type T5 = Bvf<u32, 1>;
pub type T6 = Bvf<u32, 3>;
pub type T7 = Bvf<u64, 1>;
pub type T8 = Bvf<u64, 2>;
pub type T9 = Bvf<u64, 3>;
pub type T10 = Bvf<u128, 1>;
pub type T11 = Bvf<u128, 3>;
pub type T12 = Bvf<u64, 8>;
pub type T13 = Bvf<usize, 2>;
pub type T14 = Bvd;
pub type T15 = Bv;

pub const TYPE_NAMES: [&str; NTYPES] = [
    "Bvf<u8,1>",
    "Bvf<u8,2>",
    "Bvf<u8,7>",
    "Bvf<u16,1>",
    "Bvf<u16,3>",
    "Bvf<u32,1>",
    "Bvf<u32,3>",
    "Bvf<u64,1>",
    "Bvf<u64,2>",
    "Bvf<u64,3>",
    "Bvf<u128,1>",
    "Bvf<u128,3>",
    "Bvf<u64,8>",
    "Bvf<usize,2>",
    "Bvd",
    "Bv",
];

/// (word bits, words) for fixed types; Bvd/Bv use 64-bit words.
pub const TYPE_WORD_BITS: [usize; NTYPES] =
    [8, 8, 8, 16, 16, 32, 32, 64, 64, 64, 128, 128, 64, 64, 64, 64];
pub const TYPE_FIXED_CAP: [Option<usize>; NTYPES] = [
    Some(8),
    Some(16),
    Some(56),
    Some(16),
    Some(48),
    Some(32),
    Some(96),
    Some(64),
    Some(128),
    Some(192),
    Some(128),
    Some(384),
    Some(512),
    Some(128),
    None,
    None,
];

pub fn type_idx(name: &str) -> Option<usize> {
    TYPE_NAMES.iter().position(|n| *n == name)
}

pub fn type_class(idx: usize) -> &'static str {
    match idx {
        IDX_BVD => "Bvd",
        IDX_BV => "Bv",
        _ => "Bvf",
    }
}

/// Expands `$body` once per concrete type with `$T` bound to it.
#[macro_export]
macro_rules! with_type {
    ($idx:expr, $T:ident, $body:block) => {
        match $idx {
            0 => { type $T = $crate::types::T0; $body }
            1 => { type $T = $crate::types::T1; $body }
            2 => { type $T = $crate::types::T2; $body }
            3 => { type $T = $crate::types::T3; $body }
            4 => { type $T = $crate::types::T4; $body }
            5 => { type $T = $crate::types::T5; $body }
            6 => { type $T = $crate::types::T6; $body }
            7 => { type $T = $crate::types::T7; $body }
            8 => { type $T = $crate::types::T8; $body }
            9 => { type $T = $crate::types::T9; $body }
            10 => { type $T = $crate::types::T10; $body }
            11 => { type $T = $crate::types::T11; $body }
            12 => { type $T = $crate::types::T12; $body }
            13 => { type $T = $crate::types::T13; $body }
            14 => { type $T = $crate::types::T14; $body }
            15 => { type $T = $crate::types::T15; $body }
            other => panic!("HARNESS-ERROR: bad type index {}", other),
        }
    };
}

// -------------------------------------------------------------------------------------------------
// Native unsigned integers as a dynamic value
// -------------------------------------------------------------------------------------------------

#[derive(Clone, Copy, PartialEq, Eq, Debug, Hash)]
pub enum UTy {
    U8,
    U16,
    U32,
    U64,
    U128,
    Usize,
}

pub const ALL_UTY: [UTy; 6] = [UTy::U8, UTy::U16, UTy::U32, UTy::U64, UTy::U128, UTy::Usize];

impl UTy {
    pub fn bits(self) -> usize {
        match self {
            UTy::U8 => 8,
            UTy::U16 => 16,
            UTy::U32 => 32,
            UTy::U64 => 64,
            UTy::U128 => 128,
            UTy::Usize => usize::BITS as usize,
        }
    }
    pub fn name(self) -> &'static str {
        match self {
            UTy::U8 => "u8",
            UTy::U16 => "u16",
            UTy::U32 => "u32",
            UTy::U64 => "u64",
            UTy::U128 => "u128",
            UTy::Usize => "usize",
        }
    }
    pub fn parse(s: &str) -> Option<UTy> {
        ALL_UTY.iter().copied().find(|t| t.name() == s)
    }
    pub fn max(self) -> u128 {
        crate::model::mask128(self.bits())
    }
    /// Build a value of this type from the low bits of x.
    pub fn make(self, x: u128) -> UInt {
        match self {
            UTy::U8 => UInt::U8(x as u8),
            UTy::U16 => UInt::U16(x as u16),
            UTy::U32 => UInt::U32(x as u32),
            UTy::U64 => UInt::U64(x as u64),
            UTy::U128 => UInt::U128(x),
            UTy::Usize => UInt::Usize(x as usize),
        }
    }
}

#[derive(Clone, Copy, PartialEq, Eq, Debug, Hash)]
pub enum UInt {
    U8(u8),
    U16(u16),
    U32(u32),
    U64(u64),
    U128(u128),
    Usize(usize),
}

impl UInt {
    pub fn val(self) -> u128 {
        match self {
            UInt::U8(x) => x as u128,
            UInt::U16(x) => x as u128,
            UInt::U32(x) => x as u128,
            UInt::U64(x) => x as u128,
            UInt::U128(x) => x,
            UInt::Usize(x) => x as u128,
        }
    }
    pub fn ty(self) -> UTy {
        match self {
            UInt::U8(_) => UTy::U8,
            UInt::U16(_) => UTy::U16,
            UInt::U32(_) => UTy::U32,
            UInt::U64(_) => UTy::U64,
            UInt::U128(_) => UTy::U128,
            UInt::Usize(_) => UTy::Usize,
        }
    }
    pub fn enc(self) -> String {
        format!("{}:{}", self.ty().name(), self.val())
    }
    pub fn dec(s: &str) -> Option<UInt> {
        let (t, v) = s.split_once(':')?;
        Some(UTy::parse(t)?.make(v.parse::<u128>().ok()?))
    }
}

/// A slice of native integers (for the slice conversions of C11).
#[derive(Clone, PartialEq, Eq, Debug)]
pub enum USlice {
    U8(Vec<u8>),
    U16(Vec<u16>),
    U32(Vec<u32>),
    U64(Vec<u64>),
    U128(Vec<u128>),
    Usize(Vec<usize>),
}

impl USlice {
    pub fn make(ty: UTy, vals: &[u128]) -> USlice {
        match ty {
            UTy::U8 => USlice::U8(vals.iter().map(|x| *x as u8).collect()),
            UTy::U16 => USlice::U16(vals.iter().map(|x| *x as u16).collect()),
            UTy::U32 => USlice::U32(vals.iter().map(|x| *x as u32).collect()),
            UTy::U64 => USlice::U64(vals.iter().map(|x| *x as u64).collect()),
            UTy::U128 => USlice::U128(vals.to_vec()),
            UTy::Usize => USlice::Usize(vals.iter().map(|x| *x as usize).collect()),
        }
    }
}

// -------------------------------------------------------------------------------------------------
// Operator forms
// -------------------------------------------------------------------------------------------------

/// The six ways of writing one binary operator: owned/borrowed operands and compound assignment.
#[derive(Clone, Copy, PartialEq, Eq, Debug, Hash)]
pub enum Form {
    /// `a op b`
    VV,
    /// `a op &b`
    VR,
    /// `&a op b`
    RV,
    /// `&a op &b`
    RR,
    /// `a op= b`
    AV,
    /// `a op= &b`
    AR,
}

pub const ALL_FORMS: [Form; 6] = [Form::VV, Form::VR, Form::RV, Form::RR, Form::AV, Form::AR];

impl Form {
    pub fn name(self) -> &'static str {
        match self {
            Form::VV => "vv",
            Form::VR => "vr",
            Form::RV => "rv",
            Form::RR => "rr",
            Form::AV => "av",
            Form::AR => "ar",
        }
    }
    pub fn parse(s: &str) -> Option<Form> {
        ALL_FORMS.iter().copied().find(|f| f.name() == s)
    }
}

macro_rules! forms {
    ($a:expr, $b:expr, $form:expr, $op:tt, $asg:tt) => {
        match $form {
            Form::VV => $a.clone() $op $b.clone(),
            Form::VR => $a.clone() $op &$b,
            Form::RV => &$a $op $b.clone(),
            Form::RR => &$a $op &$b,
            Form::AV => {
                let mut x = $a.clone();
                x $asg $b.clone();
                x
            }
            Form::AR => {
                let mut x = $a.clone();
                x $asg &$b;
                x
            }
        }
    };
}

macro_rules! all_ops {
    ($a:expr, $b:expr, $op:expr, $form:expr) => {
        match $op {
            Op::Add => forms!($a, $b, $form, +, +=),
            Op::Sub => forms!($a, $b, $form, -, -=),
            Op::Mul => forms!($a, $b, $form, *, *=),
            Op::Div => forms!($a, $b, $form, /, /=),
            Op::Rem => forms!($a, $b, $form, %, %=),
            Op::And => forms!($a, $b, $form, &, &=),
            Op::Or => forms!($a, $b, $form, |, |=),
            Op::Xor => forms!($a, $b, $form, ^, ^=),
        }
    };
}

/// Raw storage as seen through `into_inner` / the doc-hidden `Bv` variants. Diagnostic only.
#[derive(Clone, PartialEq, Eq, Debug, Hash)]
pub struct Raw {
    /// storage words, zero-extended to u128
    pub words: Vec<u128>,
    pub word_bits: usize,
    /// 0 = fixed array, 1 = heap
    pub heap: bool,
}

impl Raw {
    /// true if some storage bit at a position >= len is set
    pub fn dirty(&self, len: usize) -> bool {
        for (i, w) in self.words.iter().enumerate() {
            let lo = i * self.word_bits;
            let valid = if len > lo { (len - lo).min(self.word_bits) } else { 0 };
            let m = if valid >= 128 { u128::MAX } else { (1u128 << valid) - 1 };
            if *w & !m != 0 {
                return true;
            }
        }
        false
    }
}

/// Everything the generic code needs from one concrete type.
pub trait Subject: BitVector + Clone + Sized + 'static {
    const IDX: usize;
    const NAME: &'static str;
    const WORD_BITS: usize;
    /// Some(capacity) for fixed types
    const FIXED_CAP: Option<usize>;

    fn raw(&self) -> Raw;
    /// Bvd/Bv only: reserve(additional); false when the type has no such method
    fn reserve_x(&mut self, additional: usize) -> bool;
    fn shrink_x(&mut self) -> bool;
    /// Bv only: Some(true) when currently heap-stored
    fn is_heap(&self) -> Option<bool>;

    fn not_v(self) -> Self;
    fn not_r(&self) -> Self;
    /// `<<` / `>>` by a native amount in one of the six forms
    fn shift(a: &Self, left: bool, form: Form, k: UInt) -> Self;
    fn bin_uint(a: &Self, op: Op, form: Form, x: UInt) -> Self;

    fn from_uint(x: UInt, by_ref: bool) -> Result<Self, ConvertionError>;
    fn to_uint(&self, ty: UTy, by_ref: bool) -> Result<UInt, ConvertionError>;
    fn from_uslice(s: &USlice) -> Result<Self, ConvertionError>;
    /// the vector built from a native integer that the operator impls use internally (C20)
    fn collect_bits<I: Iterator<Item = Bit>>(it: I) -> Self;
    fn extend_bits<I: Iterator<Item = Bit>>(&mut self, it: I);
    fn ref_into_iter(&self) -> BitIterator<'_, Self>;
    /// `new(into_inner())` where the type offers it
    fn rebuild(self) -> Option<Self>;
    fn div_rem_self(a: &Self, b: &Self) -> (Self, Self);
    /// fresh `Bvd` / `Bv` on the left, `Self` on the right (needs the concrete pair impls)
    fn bvd_cmp(l: &Bvd, y: &Self) -> CmpObs;
    fn bv_cmp(l: &Bv, y: &Self) -> CmpObs;
    fn bvd_bin(l: &Bvd, op: Op, form: Form, y: &Self) -> Bvd;
    fn bv_bin(l: &Bv, op: Op, form: Form, y: &Self) -> Bv;
    /// `a op r` with a dynamic / auto right-hand operand (operand production paths)
    fn with_bvd(a: &Self, op: Op, form: Form, r: &Bvd) -> Self;
    fn with_bv(a: &Self, op: Op, form: Form, r: &Bv) -> Self;
    /// convert to type `ty` and back (None when the forward conversion reports an error or, for
    /// `by_val`, bva has no by-value form for that pair)
    fn roundtrip_via(&self, ty: usize, by_val: bool) -> Option<Result<Self, String>>;
    /// Self::try_from(&v) for a vector v of type `ty` and length `len` (pattern 0: all zeros, 1: all ones, 2: only
    /// bit 0 set, 3: only the top bit set): Some(Ok((len, capacity))) / Some(Err) ; None when type `ty` cannot hold
    /// `len` bits itself
    fn try_from_longer(ty: usize, len: usize, pattern: usize) -> Option<Result<(usize, usize), String>>;
}

macro_rules! uint_arms {
    ($x:expr, $v:ident, $body:expr) => {
        match $x {
            UInt::U8($v) => $body,
            UInt::U16($v) => $body,
            UInt::U32($v) => $body,
            UInt::U64($v) => $body,
            UInt::U128($v) => $body,
            UInt::Usize($v) => $body,
        }
    };
}

macro_rules! common_subject_items {
    ($T:ty) => {
        fn not_v(self) -> Self {
            !self
        }
        fn not_r(&self) -> Self {
            !self
        }
        fn shift(a: &Self, left: bool, form: Form, k: UInt) -> Self {
            uint_arms!(k, k, {
                if left {
                    forms!(*a, k, form, <<, <<=)
                } else {
                    forms!(*a, k, form, >>, >>=)
                }
            })
        }
        fn bin_uint(a: &Self, op: Op, form: Form, x: UInt) -> Self {
            uint_arms!(x, x, { all_ops!(*a, x, op, form) })
        }
        fn to_uint(&self, ty: UTy, by_ref: bool) -> Result<UInt, ConvertionError> {
            if by_ref {
                match ty {
                    UTy::U8 => u8::try_from(self).map(UInt::U8),
                    UTy::U16 => u16::try_from(self).map(UInt::U16),
                    UTy::U32 => u32::try_from(self).map(UInt::U32),
                    UTy::U64 => u64::try_from(self).map(UInt::U64),
                    UTy::U128 => u128::try_from(self).map(UInt::U128),
                    UTy::Usize => usize::try_from(self).map(UInt::Usize),
                }
            } else {
                match ty {
                    UTy::U8 => u8::try_from(self.clone()).map(UInt::U8),
                    UTy::U16 => u16::try_from(self.clone()).map(UInt::U16),
                    UTy::U32 => u32::try_from(self.clone()).map(UInt::U32),
                    UTy::U64 => u64::try_from(self.clone()).map(UInt::U64),
                    UTy::U128 => u128::try_from(self.clone()).map(UInt::U128),
                    UTy::Usize => usize::try_from(self.clone()).map(UInt::Usize),
                }
            }
        }
        fn collect_bits<I: Iterator<Item = Bit>>(it: I) -> Self {
            it.collect::<$T>()
        }
        fn extend_bits<I: Iterator<Item = Bit>>(&mut self, it: I) {
            self.extend(it)
        }
        fn ref_into_iter(&self) -> BitIterator<'_, Self> {
            self.into_iter()
        }
        fn div_rem_self(a: &Self, b: &Self) -> (Self, Self) {
            a.div_rem::<$T>(b)
        }
        fn bvd_cmp(l: &Bvd, y: &Self) -> CmpObs {
            <Bvd as Pair<$T>>::cmp_all(l, y)
        }
        fn bv_cmp(l: &Bv, y: &Self) -> CmpObs {
            <Bv as Pair<$T>>::cmp_all(l, y)
        }
        fn bvd_bin(l: &Bvd, op: Op, form: Form, y: &Self) -> Bvd {
            <Bvd as Pair<$T>>::bin(l, op, form, y)
        }
        fn bv_bin(l: &Bv, op: Op, form: Form, y: &Self) -> Bv {
            <Bv as Pair<$T>>::bin(l, op, form, y)
        }
        fn with_bvd(a: &Self, op: Op, form: Form, r: &Bvd) -> Self {
            <$T as Pair<Bvd>>::bin(a, op, form, r)
        }
        fn with_bv(a: &Self, op: Op, form: Form, r: &Bv) -> Self {
            <$T as Pair<Bv>>::bin(a, op, form, r)
        }
        fn try_from_longer(ty: usize, len: usize, pattern: usize) -> Option<Result<(usize, usize), String>> {
            $crate::with_type!(ty, B, {
                if B::FIXED_CAP.map_or(false, |c| len > c) {
                    return None;
                }
                let mut b = if pattern % 4 == 1 { B::ones(len) } else { B::zeros(len) };
                if pattern % 4 == 2 && len > 0 {
                    b.set(0, Bit::One);
                }
                if pattern % 4 == 3 && len > 0 {
                    b.set(len - 1, Bit::One);
                }
                Some(<B as Pair<$T>>::conv_ref(&b).map(|v| (v.len(), v.capacity())))
            })
        }
        fn roundtrip_via(&self, ty: usize, by_val: bool) -> Option<Result<Self, String>> {
            $crate::with_type!(ty, B, {
                if by_val {
                    match <$T as Pair<B>>::conv_val(self.clone()) {
                        Some(Ok(b)) => <B as Pair<$T>>::conv_val(b),
                        _ => None,
                    }
                } else {
                    match <$T as Pair<B>>::conv_ref(self) {
                        Ok(b) => Some(<B as Pair<$T>>::conv_ref(&b)),
                        Err(_) => None,
                    }
                }
            })
        }
    };
}

macro_rules! impl_subject_fixed {
    ($idx:expr, $T:ty, $I:ty, $N:expr) => {
        impl Subject for $T {
            const IDX: usize = $idx;
            const NAME: &'static str = TYPE_NAMES[$idx];
            const WORD_BITS: usize = <$I>::BITS as usize;
            const FIXED_CAP: Option<usize> = Some((<$I>::BITS as usize) * $N);

            fn raw(&self) -> Raw {
                let (data, _len) = self.clone().into_inner();
                Raw {
                    words: data.iter().map(|w| *w as u128).collect(),
                    word_bits: <$I>::BITS as usize,
                    heap: false,
                }
            }
            fn reserve_x(&mut self, _additional: usize) -> bool {
                false
            }
            fn shrink_x(&mut self) -> bool {
                false
            }
            fn is_heap(&self) -> Option<bool> {
                None
            }
            fn from_uint(x: UInt, by_ref: bool) -> Result<Self, ConvertionError> {
                uint_arms!(x, x, {
                    if by_ref {
                        <$T>::try_from(&x)
                    } else {
                        <$T>::try_from(x)
                    }
                })
            }
            fn from_uslice(s: &USlice) -> Result<Self, ConvertionError> {
                match s {
                    USlice::U8(v) => <$T>::try_from(v.as_slice()),
                    USlice::U16(v) => <$T>::try_from(v.as_slice()),
                    USlice::U32(v) => <$T>::try_from(v.as_slice()),
                    USlice::U64(v) => <$T>::try_from(v.as_slice()),
                    USlice::U128(v) => <$T>::try_from(v.as_slice()),
                    USlice::Usize(v) => <$T>::try_from(v.as_slice()),
                }
            }
            fn rebuild(self) -> Option<Self> {
                let (data, len) = self.into_inner();
                Some(<$T>::new(data, len))
            }
            common_subject_items!($T);
        }
    };
}

impl_subject_fixed!(0, T0, u8, 1);
impl_subject_fixed!(1, T1, u8, 2);
impl_subject_fixed!(2, T2, u8, 7);
impl_subject_fixed!(3, T3, u16, 1);
impl_subject_fixed!(4, T4, u16, 3);
impl_subject_fixed!(5, T5, u32, 1);
impl_subject_fixed!(6, T6, u32, 3);
impl_subject_fixed!(7, T7, u64, 1);
impl_subject_fixed!(8, T8, u64, 2);
impl_subject_fixed!(9, T9, u64, 3);
impl_subject_fixed!(10, T10, u128, 1);
impl_subject_fixed!(11, T11, u128, 3);
impl_subject_fixed!(12, T12, u64, 8);
impl_subject_fixed!(13, T13, usize, 2);

macro_rules! from_uint_infallible {
    ($T:ty) => {
        fn from_uint(x: UInt, by_ref: bool) -> Result<Self, ConvertionError> {
            uint_arms!(x, x, {
                if by_ref {
                    Ok(<$T>::from(&x))
                } else {
                    Ok(<$T>::from(x))
                }
            })
        }
        fn from_uslice(s: &USlice) -> Result<Self, ConvertionError> {
            Ok(match s {
                USlice::U8(v) => <$T>::from(v.as_slice()),
                USlice::U16(v) => <$T>::from(v.as_slice()),
                USlice::U32(v) => <$T>::from(v.as_slice()),
                USlice::U64(v) => <$T>::from(v.as_slice()),
                USlice::U128(v) => <$T>::from(v.as_slice()),
                USlice::Usize(v) => <$T>::from(v.as_slice()),
            })
        }
    };
}

impl Subject for Bvd {
    const IDX: usize = IDX_BVD;
    const NAME: &'static str = TYPE_NAMES[IDX_BVD];
    const WORD_BITS: usize = 64;
    const FIXED_CAP: Option<usize> = None;

    fn raw(&self) -> Raw {
        let (data, _len) = self.clone().into_inner();
        Raw {
            words: data.iter().map(|w| *w as u128).collect(),
            word_bits: 64,
            heap: true,
        }
    }
    fn reserve_x(&mut self, additional: usize) -> bool {
        self.reserve(additional);
        true
    }
    fn shrink_x(&mut self) -> bool {
        self.shrink_to_fit();
        true
    }
    fn is_heap(&self) -> Option<bool> {
        None
    }
    fn rebuild(self) -> Option<Self> {
        let (data, len) = self.into_inner();
        Some(Bvd::new(data, len))
    }
    from_uint_infallible!(Bvd);
    common_subject_items!(Bvd);
}

impl Subject for Bv {
    const IDX: usize = IDX_BV;
    const NAME: &'static str = TYPE_NAMES[IDX_BV];
    const WORD_BITS: usize = 64;
    const FIXED_CAP: Option<usize> = None;

    fn raw(&self) -> Raw {
        match self {
            Bv::Fixed(b) => {
                let (data, _len) = (*b).into_inner();
                Raw {
                    words: data.iter().map(|w| *w as u128).collect(),
                    word_bits: 64,
                    heap: false,
                }
            }
            Bv::Dynamic(b) => {
                let (data, _len) = b.clone().into_inner();
                Raw {
                    words: data.iter().map(|w| *w as u128).collect(),
                    word_bits: 64,
                    heap: true,
                }
            }
        }
    }
    fn reserve_x(&mut self, additional: usize) -> bool {
        self.reserve(additional);
        true
    }
    fn shrink_x(&mut self) -> bool {
        self.shrink_to_fit();
        true
    }
    fn is_heap(&self) -> Option<bool> {
        Some(matches!(self, Bv::Dynamic(_)))
    }
    fn rebuild(self) -> Option<Self> {
        None
    }
    from_uint_infallible!(Bv);
    common_subject_items!(Bv);
}

// -------------------------------------------------------------------------------------------------
// Pairs
// -------------------------------------------------------------------------------------------------

/// Results of every comparison operator on one ordered pair.
#[derive(Clone, Copy, PartialEq, Eq, Debug)]
pub struct CmpObs {
    pub eq: bool,
    pub ne: bool,
    pub lt: bool,
    pub le: bool,
    pub gt: bool,
    pub ge: bool,
    pub partial: Option<std::cmp::Ordering>,
}

/// What `A` offers with a right-hand operand of type `B`.
pub trait Pair<B: Subject>: Subject {
    fn bin(a: &Self, op: Op, form: Form, b: &B) -> Self;
    fn div_rem_x(a: &Self, b: &B) -> (Self, Self);
    fn cmp_all(a: &Self, b: &B) -> CmpObs;
    /// `B::try_from(&a)` / `B::from(&a)`; Err carries the Debug text of the error
    fn conv_ref(a: &Self) -> Result<B, String>;
    /// by-value form where bva offers one
    fn conv_val(a: Self) -> Option<Result<B, String>>;
}

macro_rules! pair_common {
    ($A:ty, $B:ty) => {
        fn bin(a: &Self, op: Op, form: Form, b: &$B) -> Self {
            all_ops!(*a, *b, op, form)
        }
        fn div_rem_x(a: &Self, b: &$B) -> (Self, Self) {
            a.div_rem::<$B>(b)
        }
        fn cmp_all(a: &Self, b: &$B) -> CmpObs {
            CmpObs {
                eq: a == b,
                ne: a != b,
                lt: a < b,
                le: a <= b,
                gt: a > b,
                ge: a >= b,
                partial: a.partial_cmp(b),
            }
        }
        fn conv_ref(a: &Self) -> Result<$B, String> {
            <$B>::try_from(a).map_err(|e| format!("{:?}", e))
        }
    };
}

macro_rules! impl_pair {
    // distinct fixed types: bva has no by-value conversion
    (ff $A:ty, $B:ty) => {
        impl Pair<$B> for $A {
            pair_common!($A, $B);
            fn conv_val(_a: Self) -> Option<Result<$B, String>> {
                None
            }
        }
    };
    (val $A:ty, $B:ty) => {
        impl Pair<$B> for $A {
            pair_common!($A, $B);
            fn conv_val(a: Self) -> Option<Result<$B, String>> {
                Some(<$B>::try_from(a).map_err(|e| format!("{:?}", e)))
            }
        }
    };
}

macro_rules! impl_pairs_fixed_row {
    ($A:ty; $($B:ty),+) => {
        $( impl_pair!(ff $A, $B); )+
        impl_pair!(val $A, Bvd);
        impl_pair!(val $A, Bv);
        impl_pair!(val Bvd, $A);
        impl_pair!(val Bv, $A);
    };
}

// The 14x14 fixed block: the diagonal (same type) goes through the reflexive blanket TryFrom, which
// is by-value only for T -> T; by-reference T::try_from(&T) is bva's own impl. Treat all as `ff`
// for the by-value form except the diagonal where the blanket impl exists.
macro_rules! fixed_block {
    ($($A:ty),+) => { fixed_block!(@rows [$($A),+] [$($A),+]); };
    (@rows [$($A:ty),+] $all:tt) => { $( fixed_block!(@row $A $all); )+ };
    (@row $A:ty [$($B:ty),+]) => { impl_pairs_fixed_row!($A; $($B),+); };
}

fixed_block!(T0, T1, T2, T3, T4, T5, T6, T7, T8, T9, T10, T11, T12, T13);

impl_pair!(val Bvd, Bvd);
impl_pair!(val Bvd, Bv);
impl_pair!(val Bv, Bvd);
impl_pair!(val Bv, Bv);

/// `A` can be paired with every type of the universe.
pub trait AllPairs:
    Pair<Self>
    + Pair<T0>
    + Pair<T1>
    + Pair<T2>
    + Pair<T3>
    + Pair<T4>
    + Pair<T5>
    + Pair<T6>
    + Pair<T7>
    + Pair<T8>
    + Pair<T9>
    + Pair<T10>
    + Pair<T11>
    + Pair<T12>
    + Pair<T13>
    + Pair<T14>
    + Pair<T15>
{
}

impl<A> AllPairs for A where
    A: Pair<A>
        + Pair<T0>
        + Pair<T1>
        + Pair<T2>
        + Pair<T3>
        + Pair<T4>
        + Pair<T5>
        + Pair<T6>
        + Pair<T7>
        + Pair<T8>
        + Pair<T9>
        + Pair<T10>
        + Pair<T11>
        + Pair<T12>
        + Pair<T13>
        + Pair<T14>
        + Pair<T15>
{
}

pub fn bit(b: bool) -> Bit {
    if b {
        Bit::One
    } else {
        Bit::Zero
    }
}
pub fn unbit(b: Bit) -> bool {
    b == Bit::One
}
