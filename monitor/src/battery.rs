//! Observer battery = "indistinguishable from a freshly constructed vector with the same length
//! and bits" (property C03, and the hidden-state clause of every other property).
//!
//! Strictly *differential*: every observer and every next-operation probe is run on the subject
//! and on a fresh twin built with `zeros(len)` + `set(i)` from the model bits, and the two answers
//! must be equal. What the answer *should be* in absolute terms is the business of the property
//! that owns that observer (C13 bytes, C14 text, C16 counts, ...), so a defect in an observer
//! itself does not make unrelated checks fire: subject and twin are then equally wrong.
//! Raw storage is never compared.

use std::fmt::Debug;
use std::hash::{Hash, Hasher};

use crate::exec::guarded;
use crate::model::{self, Op};
use crate::report::Ctx;
use crate::spec::{build_set, read_bits};
use crate::types::*;

#[derive(Clone, Debug)]
pub struct Fail {
    pub item: String,
    pub detail: String,
}

/// Records the exact sequence of typed writes a `Hash` impl performs.
#[derive(Default)]
pub struct RecHasher(pub Vec<u8>);

impl Hasher for RecHasher {
    fn finish(&self) -> u64 {
        0
    }
    fn write(&mut self, bytes: &[u8]) {
        self.0.push(b'w');
        self.0.extend_from_slice(&(bytes.len() as u32).to_le_bytes());
        self.0.extend_from_slice(bytes);
    }
    fn write_u8(&mut self, i: u8) {
        self.0.push(b'1');
        self.0.push(i);
    }
    fn write_u16(&mut self, i: u16) {
        self.0.push(b'2');
        self.0.extend_from_slice(&i.to_le_bytes());
    }
    fn write_u32(&mut self, i: u32) {
        self.0.push(b'4');
        self.0.extend_from_slice(&i.to_le_bytes());
    }
    fn write_u64(&mut self, i: u64) {
        self.0.push(b'8');
        self.0.extend_from_slice(&i.to_le_bytes());
    }
    fn write_u128(&mut self, i: u128) {
        self.0.push(b'6');
        self.0.extend_from_slice(&i.to_le_bytes());
    }
    fn write_usize(&mut self, i: usize) {
        self.0.push(b'z');
        self.0.extend_from_slice(&i.to_le_bytes());
    }
}

pub fn hash_stream<T: Hash>(x: &T) -> Vec<u8> {
    let mut h = RecHasher::default();
    x.hash(&mut h);
    h.0
}

pub fn default_hash<T: Hash>(x: &T) -> u64 {
    let mut h = std::collections::hash_map::DefaultHasher::new();
    x.hash(&mut h);
    h.finish()
}

/// What every probe result is reduced to.
#[derive(Clone, Debug, PartialEq, Eq)]
pub struct Basic {
    pub len: usize,
    pub bits: String,
    pub bytes: Vec<u8>,
    pub zero: bool,
    pub hex: String,
    pub lz: usize,
}

pub fn basic<T: Subject>(y: &T) -> Basic {
    Basic {
        len: y.len(),
        bits: model::to_str(&read_bits(y)),
        bytes: y.to_vec(Endianness::Little),
        zero: y.is_zero(),
        hex: format!("{:x}", y),
        lz: y.leading_zeros(),
    }
}

struct B<'a, T: Subject> {
    x: &'a T,
    twin: &'a T,
    fails: Vec<Fail>,
    calls: u64,
}

impl<'a, T: Subject> B<'a, T> {
    fn d<R: PartialEq + Debug>(&mut self, item: &str, f: impl Fn(&T) -> R) {
        self.calls += 1;
        let a = guarded(|| f(self.x));
        let b = guarded(|| f(self.twin));
        match (a, b) {
            (Ok(a), Ok(b)) => {
                if a != b {
                    self.fails.push(Fail {
                        item: item.to_string(),
                        detail: format!("subject -> {:?} ; fresh twin -> {:?}", a, b),
                    });
                }
            }
            (Err(p), Ok(b)) => self.fails.push(Fail {
                item: item.to_string(),
                detail: format!("subject panicked ({}) ; fresh twin -> {:?}", p.short(), b),
            }),
            (Ok(a), Err(p)) => self.fails.push(Fail {
                item: item.to_string(),
                detail: format!("subject -> {:?} ; fresh twin panicked ({})", a, p.short()),
            }),
            (Err(_), Err(_)) => {}
        }
    }
}

/// Run the battery. Returns the list of observers / probes that told subject and twin apart.
/// `model` must be the expected bits; if the subject's own (len, bits) differ from it that is
/// reported as item "bits" and nothing else is tried.
pub fn battery<T: Subject + AllPairs>(ctx: &mut Ctx, x: &T, model: &[bool], full: bool) -> Vec<Fail> {
    let full = full && !ctx.lite_only;
    let n = model.len();
    // subject readable and equal to the model?
    let rb = guarded(|| (x.len(), read_bits(x)));
    match rb {
        Ok((l, bits)) => {
            if l != n || bits != model {
                return vec![Fail {
                    item: "bits".into(),
                    detail: format!(
                        "subject len {} bits {} ; expected len {} bits {}",
                        l,
                        model::to_str(&bits),
                        n,
                        model::to_str(model)
                    ),
                }];
            }
        }
        Err(p) => {
            return vec![Fail {
                item: "bits".into(),
                detail: format!("reading the subject panicked: {}", p.short()),
            }]
        }
    }
    let twin = match guarded(|| {
        let t: T = build_set(model);
        let ok = t.len() == n && read_bits(&t) == model;
        (t, ok)
    }) {
        Ok((t, true)) => t,
        _ => {
            ctx.bucket("battery:twin-unreliable");
            return vec![];
        }
    };
    if full {
        ctx.battery_full += 1;
    } else {
        ctx.battery_lite += 1;
    }

    let cap = T::FIXED_CAP;
    let fit = |target: usize| cap.map_or(target, |c| target.min(c));
    let wb = T::WORD_BITS;
    let mut b = B { x, twin: &twin, fails: vec![], calls: 0 };

    // ---------------- observers (lite) ----------------
    b.d("is_zero", |y| y.is_zero());
    b.d("to_vec(Little)", |y| y.to_vec(Endianness::Little));
    b.d("leading_zeros", |y| y.leading_zeros());
    b.d("trailing_zeros", |y| y.trailing_zeros());
    b.d("significant_bits", |y| y.significant_bits());
    b.d("fmt {:x}", |y| format!("{:x}", y));
    b.d("y == twin", |y| y == &twin);
    b.d("twin == y", |y| &twin == y);
    b.d("y.cmp(twin)", |y| y.cmp(&twin));
    {
        let t1 = fit((n / wb + 1) * wb + 1);
        if t1 > n {
            b.d("probe resize(next word+1, Zero)", |y| {
                let mut c = y.clone();
                c.resize(t1, Bit::Zero);
                basic(&c)
            });
        }
    }

    if full {
        // ---------------- observers (full) ----------------
        b.d("is_empty", |y| y.is_empty());
        b.d("first", |y| y.first());
        b.d("last", |y| y.last());
        b.d("iter", |y| y.iter().collect::<Vec<Bit>>());
        b.d("iter.rev", |y| y.iter().rev().collect::<Vec<Bit>>());
        b.d("&y into_iter", |y| y.ref_into_iter().collect::<Vec<Bit>>());
        b.d("to_vec(Big)", |y| y.to_vec(Endianness::Big));
        b.d("write(Little)", |y| {
            let mut w = Vec::new();
            let r = y.write(&mut w, Endianness::Little).is_ok();
            (r, w)
        });
        b.d("write(Big)", |y| {
            let mut w = Vec::new();
            let r = y.write(&mut w, Endianness::Big).is_ok();
            (r, w)
        });
        b.d("leading_ones", |y| y.leading_ones());
        b.d("trailing_ones", |y| y.trailing_ones());
        if n <= 600 {
            b.d("fmt matrix", |y| model::fmt_all(y));
        } else {
            // decimal formatting is quadratic (repeated division by ten): for long vectors only the power-of-two radixes
            b.d("fmt matrix (no decimal)", |y| model::fmt_nodec(y));
        }
        b.d("hash stream", |y| hash_stream(y));
        b.d("DefaultHasher", |y| default_hash(y));
        b.d("twin.cmp(y)", |y| twin.cmp(y));
        b.d("partial_cmp", |y| y.partial_cmp(&twin));
        for ty in ALL_UTY {
            b.d(&format!("{}::try_from(&y)", ty.name()), |y| y.to_uint(ty, true));
            b.d(&format!("{}::try_from(y)", ty.name()), |y| y.to_uint(ty, false));
        }
        // conversions to the other implementations, observed through the target's own observers
        b.d("Bvd::from(&y)", |y| <T as Pair<Bvd>>::conv_ref(y).map(|c| basic(&c)));
        b.d("Bv::from(&y)", |y| <T as Pair<Bv>>::conv_ref(y).map(|c| basic(&c)));
        b.d("Bvf<u64,3>::try_from(&y)", |y| <T as Pair<T9>>::conv_ref(y).map(|c| basic(&c)));
        b.d("Bvf<u8,7>::try_from(&y)", |y| <T as Pair<T2>>::conv_ref(y).map(|c| basic(&c)));
        b.d("Bvf<u128,3>::try_from(&y)", |y| <T as Pair<T11>>::conv_ref(y).map(|c| basic(&c)));
        b.d("Bvd::from(y)", |y| <T as Pair<Bvd>>::conv_val(y.clone()).map(|r| r.map(|c| basic(&c))));
        b.d("Bv::from(y)", |y| <T as Pair<Bv>>::conv_val(y.clone()).map(|r| r.map(|c| basic(&c))));
        // mixed-type comparisons against fresh vectors of the other implementations
        if let Ok((td, ta, tw)) = guarded(|| {
            let td: Bvd = build_set(model);
            let ta: Bv = build_set(model);
            let mut plus1 = model.to_vec();
            plus1.push(true);
            let tw: Bvd = build_set(&plus1);
            (td, ta, tw)
        }) {
            b.d("cmp with fresh Bvd", |y| <T as Pair<Bvd>>::cmp_all(y, &td));
            b.d("cmp with fresh Bv", |y| <T as Pair<Bv>>::cmp_all(y, &ta));
            b.d("fresh Bvd cmp y", |y| T::bvd_cmp(&td, y));
            b.d("fresh Bv cmp y", |y| T::bv_cmp(&ta, y));
            b.d("cmp with longer Bvd", |y| <T as Pair<Bvd>>::cmp_all(y, &tw));
            // arithmetic / logic with the subject as the *right-hand* operand of a fresh vector
            b.d("fresh Bvd + y", |y| basic(&T::bvd_bin(&tw, Op::Add, Form::RR, y)));
            b.d("fresh Bvd | y", |y| basic(&T::bvd_bin(&tw, Op::Or, Form::AR, y)));
            b.d("fresh Bv ^ y", |y| basic(&T::bv_bin(&ta, Op::Xor, Form::RR, y)));
            b.d("fresh Bvd * y", |y| basic(&T::bvd_bin(&tw, Op::Mul, Form::RR, y)));
            b.d("fresh Bvd.append(y)", |y| {
                let mut c = tw.clone();
                c.append(y);
                basic(&c)
            });
            b.d("fresh Bv.prepend(y)", |y| {
                if y.is_empty() {
                    return None;
                }
                let mut c = ta.clone();
                c.prepend(y);
                Some(basic(&c))
            });
        }

        // ---------------- next-operation probes ----------------
        let growths = [
            n + 1,
            (n / 8 + 1) * 8,
            (n / wb + 1) * wb,
            (n / wb + 2) * wb + 3,
            n + 130,
        ];
        for g in growths {
            let t = fit(g);
            if t > n {
                b.d(&format!("probe resize(+{}, Zero)", t - n), |y| {
                    let mut c = y.clone();
                    c.resize(t, Bit::Zero);
                    basic(&c)
                });
                b.d(&format!("probe resize(+{}, One)", t - n), |y| {
                    let mut c = y.clone();
                    c.resize(t, Bit::One);
                    basic(&c)
                });
            }
        }
        {
            let pushes = fit(n + 9) - n;
            if pushes > 0 {
                b.d("probe push(Zero)*k", |y| {
                    let mut c = y.clone();
                    for _ in 0..pushes {
                        c.push(Bit::Zero);
                    }
                    basic(&c)
                });
            }
            if fit(n + 1) > n {
                b.d("probe append(zeros(1))", |y| {
                    let mut c = y.clone();
                    c.append(&T::zeros(1));
                    basic(&c)
                });
                b.d("probe prepend(ones(1))", |y| {
                    let mut c = y.clone();
                    c.prepend(&T::ones(1));
                    basic(&c)
                });
            }
            if fit(n + 11) >= n + 11 {
                b.d("probe append(Bvd 11 bits)", |y| {
                    let mut c = y.clone();
                    let s: Bvd = build_set(&[true, false, false, false, false, false, false, false, false, false, true]);
                    c.append(&s);
                    basic(&c)
                });
            }
            let se = fit(n + 5);
            if se > n {
                b.d("probe sign_extend", |y| {
                    let mut c = y.clone();
                    c.sign_extend(se);
                    basic(&c)
                });
                b.d("probe extend(3 bits)", |y| {
                    let mut c = y.clone();
                    let k = (se - y.len()).min(3);
                    c.extend_bits((0..k).map(|i| bit(i == 1)));
                    basic(&c)
                });
            }
        }
        b.d("probe pop", |y| {
            let mut c = y.clone();
            let p = c.pop();
            (p, basic(&c))
        });
        b.d("probe !y", |y| basic(&y.not_r()));
        b.d("probe !y (owned)", |y| basic(&y.clone().not_v()));
        b.d("probe y + 0u8", |y| basic(&T::bin_uint(y, Op::Add, Form::RV, UInt::U8(0))));
        b.d("probe y - 1u8", |y| basic(&T::bin_uint(y, Op::Sub, Form::AV, UInt::U8(1))));
        b.d("probe y * 3u16", |y| basic(&T::bin_uint(y, Op::Mul, Form::RR, UInt::U16(3))));
        b.d("probe y / 3u8", |y| basic(&T::bin_uint(y, Op::Div, Form::RV, UInt::U8(3))));
        b.d("probe y % 7u64", |y| basic(&T::bin_uint(y, Op::Rem, Form::VV, UInt::U64(7))));
        b.d("probe y & MAX", |y| basic(&T::bin_uint(y, Op::And, Form::AR, UInt::U128(u128::MAX))));
        b.d("probe y | 0u8", |y| basic(&T::bin_uint(y, Op::Or, Form::VV, UInt::U8(0))));
        b.d("probe y ^ 0u8", |y| basic(&T::bin_uint(y, Op::Xor, Form::RR, UInt::U8(0))));
        b.d("probe y + y", |y| basic(&<T as Pair<T>>::bin(y, Op::Add, Form::RR, y)));
        b.d("probe y - twin", |y| basic(&<T as Pair<T>>::bin(y, Op::Sub, Form::AR, &twin)));
        b.d("probe twin - y", |y| basic(&<T as Pair<T>>::bin(&twin, Op::Sub, Form::RR, y)));
        b.d("probe y * y", |y| basic(&<T as Pair<T>>::bin(y, Op::Mul, Form::RR, y)));
        b.d("probe y << 0u8", |y| basic(&T::shift(y, true, Form::RV, UInt::U8(0))));
        b.d("probe y << 1usize", |y| basic(&T::shift(y, true, Form::AV, UInt::Usize(1))));
        b.d("probe y >> 1u32", |y| basic(&T::shift(y, false, Form::RR, UInt::U32(1))));
        b.d("probe y >> 0u64", |y| basic(&T::shift(y, false, Form::VV, UInt::U64(0))));
        b.d("probe shl_in(One)", |y| {
            let mut c = y.clone();
            let o = c.shl_in(Bit::One);
            (o, basic(&c))
        });
        b.d("probe shr_in(One)", |y| {
            let mut c = y.clone();
            let o = c.shr_in(Bit::One);
            (o, basic(&c))
        });
        if n > 0 {
            b.d("probe rotl(1)", |y| {
                let mut c = y.clone();
                c.rotl(1);
                basic(&c)
            });
            b.d("probe rotr(1)", |y| {
                let mut c = y.clone();
                c.rotr(1);
                basic(&c)
            });
            b.d("probe copy_range(1..len)", |y| basic(&y.copy_range(1..y.len())));
            b.d("probe div_rem(twin)", |y| {
                if twin.is_zero() {
                    return None;
                }
                let (q, r) = T::div_rem_self(y, &twin);
                Some((basic(&q), basic(&r)))
            });
        }
        b.d("probe copy_range(0..len)", |y| basic(&y.copy_range(0..y.len())));
        b.d("probe split_off(len/2)", |y| {
            let mut c = y.clone();
            let h = c.split_off(y.len() / 2);
            (basic(&h), basic(&c))
        });
        b.d("probe clone", |y| basic(&y.clone()));
        b.d("probe T::try_from(&y)", |y| <T as Pair<T>>::conv_ref(y).map(|c| basic(&c)));
        b.d("probe reserve+shrink", |y| {
            let mut c = y.clone();
            c.reserve_x(77);
            let a = basic(&c);
            c.shrink_x();
            (a, basic(&c))
        });
        b.d("probe rebuild(into_inner)", |y| y.clone().rebuild().map(|c| basic(&c)));
    }

    ctx.observer_calls += b.calls * 2;
    b.fails
}
