//! Observer battery = "indistinguishable from a freshly constructed vector with the same length
//! and bits" (property C03, and the hidden-state clause of every other property).
//!
//! Strictly *differential*: every observer and every next-operation probe is run on the subject
//! and on a fresh twin built with `zeros(len)` + `set(i)` from the model bits, and the two answers
//! must be equal. What the answer *should be* in absolute terms is the business of the property
//! that owns that observer (C13 bytes, C14 text, C16 counts, ...), so a defect in an observer
//! itself does not make unrelated checks fire: subject and twin are then equally wrong.
//! Raw storage is never compared.

use std::fmt::Debug;
use std::hash::{Hash, Hasher};

use crate::exec::guarded;
use crate::model::{self, Op};
use crate::report::Ctx;
use crate::spec::{build_set, read_bits};
use crate::types::*;

#[derive(Clone, Debug)]
pub struct Fail {
    pub item: String,
    pub detail: String,
}

/// Records the exact sequence of typed writes a `Hash` impl performs.
#[derive(Default)]
pub struct RecHasher(pub Vec<u8>);

impl Hasher for RecHasher {
    fn finish(&self) -> u64 {
        0
    }
    fn write(&mut self, bytes: &[u8]) {
        self.0.push(b'w');
        self.0.extend_from_slice(&(bytes.len() as u32).to_le_bytes());
        self.0.extend_from_slice(bytes);
    }
    fn write_u8(&mut self, i: u8) {
        self.0.push(b'1');
        self.0.push(i);
    }
    fn write_u16(&mut self, i: u16) {
        self.0.push(b'2');
        self.0.extend_from_slice(&i.to_le_bytes());
    }
    fn write_u32(&mut self, i: u32) {
        self.0.push(b'4');
        self.0.extend_from_slice(&i.to_le_bytes());
    }
    fn write_u64(&mut self, i: u64) {
        self.0.push(b'8');
        self.0.extend_from_slice(&i.to_le_bytes());
    }
    fn write_u128(&mut self, i: u128) {
        self.0.push(b'6');
        self.0.extend_from_slice(&i.to_le_bytes());
    }
    fn write_usize(&mut self, i: usize) {
        self.0.push(b'z');
        self.0.extend_from_slice(&i.to_le_bytes());
    }
}

pub fn hash_stream<T: Hash>(x: &T) -> Vec<u8> {
    let mut h = RecHasher::default();
    x.hash(&mut h);
    h.0
}

pub fn default_hash<T: Hash>(x: &T) -> u64 {
    let mut h = std::collections::hash_map::DefaultHasher::new();
    x.hash(&mut h);
    h.finish()
}

/// What every probe result is reduced to.
#[derive(Clone, Debug, PartialEq, Eq)]
pub struct Basic {
    pub len: usize,
    pub bits: String,
    pub bytes: Vec<u8>,
    pub zero: bool,
    pub hex: String,
    pub lz: usize,
}

pub fn basic<T: Subject>(y: &T) -> Basic {
    if VISIBLE_ONLY.with(|v| v.get()) {
        return Basic { len: y.len(), bits: model::to_str(&read_bits(y)), bytes: vec![], zero: false, hex: String::new(), lz: 0 };
    }
    Basic {
        len: y.len(),
        bits: model::to_str(&read_bits(y)),
        bytes: y.to_vec(Endianness::Little),
        zero: y.is_zero(),
        hex: format!("{:x}", y),
        lz: y.leading_zeros(),
    }
}

/// Families of observers / next-operation probes. A property's own check runs only the family that the property
/// is about (C03 runs everything): a difference found through another family's operation is that family's - or
/// C03's - business, and must not make this check raise an alarm.
#[derive(Clone, Copy, PartialEq, Eq, Debug)]
pub enum G {
    Query,
    Bytes,
    Text,
    Cmp,
    Hash,
    Iter,
    Uint,
    Conv,
    Edit,
    Logic,
    Arith,
    Div,
    Shift,
    Rot,
    Slice,
    Cap,
}

/// None = every family (C03, sanitizer subset).
/// The pure observers (no follow-up operation of another family): what "the observer battery" means in the
/// `observe_at` of C01, C04, C06, C07 and C12.
const fn with_obs(own: G) -> [G; 9] {
    [own, G::Query, G::Bytes, G::Text, G::Cmp, G::Hash, G::Iter, G::Uint, G::Conv]
}
static SC_C01: [G; 9] = with_obs(G::Arith);
static SC_C02: [G; 9] = with_obs(G::Div);
static SC_C04: [G; 9] = with_obs(G::Logic);
static SC_C05: [G; 9] = with_obs(G::Shift);
static SC_C06: [G; 9] = with_obs(G::Rot);
static SC_C07: [G; 9] = with_obs(G::Edit);
static SC_C08: [G; 9] = with_obs(G::Slice);
static SC_C11: [G; 9] = with_obs(G::Uint);
static SC_C12: [G; 9] = with_obs(G::Conv);
static SC_C13: [G; 9] = with_obs(G::Bytes);
// C15's own family (formatting the parsed vector again) is an observer family; the complete format matrix with its quadratic
// decimal conversion runs on the sampled `full` subjects only, `{:x}` on every one
static SC_C15: [G; 9] = with_obs(G::Query);

/// The families a property's own check looks through (first element = the property's own family, always run): the
/// vector an operation returns is judged by re-applying the property's own family and by the pure observers, never
/// by the follow-up operations of other families.
pub fn scope_for(prop: &str) -> Option<&'static [G]> {
    match prop {
        "C01" => Some(&SC_C01),
        "C02" => Some(&SC_C02),
        "C04" => Some(&SC_C04),
        "C05" => Some(&SC_C05),
        "C06" => Some(&SC_C06),
        "C07" => Some(&SC_C07),
        "C08" => Some(&SC_C08),
        "C11" => Some(&SC_C11),
        "C12" => Some(&SC_C12),
        "C13" => Some(&SC_C13),
        "C15" => Some(&SC_C15),
        "C03" | "SANIT" => None,
        _ => Some(&[]),
    }
}

thread_local! {
    /// narrowly scoped batteries (no pure observers in scope) reduce probe results to (len, bits) only: bytes /
    /// is_zero / hex / leading_zeros are other families
    static VISIBLE_ONLY: std::cell::Cell<bool> = const { std::cell::Cell::new(false) };
}

struct B<'a, T: Subject> {
    x: &'a T,
    twin: &'a T,
    fails: Vec<Fail>,
    calls: u64,
    scope: Option<&'static [G]>,
    /// sampled "full" battery requested for this subject
    full: bool,
    /// set once the lite section is over: from here on only `full` subjects run everything, the others run the
    /// property's own family alone
    in_full: bool,
}

impl<'a, T: Subject> B<'a, T> {
    fn d<R: PartialEq + Debug>(&mut self, g: G, item: &str, f: impl Fn(&T) -> R) {
        if let Some(sc) = self.scope {
            if !sc.contains(&g) {
                return;
            }
            if self.in_full && !self.full && sc.first() != Some(&g) {
                return;
            }
        }
        self.calls += 1;
        let a = guarded(|| f(self.x));
        let b = guarded(|| f(self.twin));
        match (a, b) {
            (Ok(a), Ok(b)) => {
                if a != b {
                    self.fails.push(Fail {
                        item: item.to_string(),
                        detail: format!("subject -> {:?} ; fresh twin -> {:?}", a, b),
                    });
                }
            }
            (Err(p), Ok(b)) => self.fails.push(Fail {
                item: item.to_string(),
                detail: format!("subject panicked ({}) ; fresh twin -> {:?}", p.short(), b),
            }),
            (Ok(a), Err(p)) => self.fails.push(Fail {
                item: item.to_string(),
                detail: format!("subject -> {:?} ; fresh twin panicked ({})", a, p.short()),
            }),
            (Err(_), Err(_)) => {}
        }
    }
}

/// Run the battery. Returns the list of observers / probes that told subject and twin apart.
/// `model` must be the expected bits; if the subject's own (len, bits) differ from it that is
/// reported as item "bits" and nothing else is tried.
pub fn battery<T: Subject + AllPairs>(ctx: &mut Ctx, x: &T, model: &[bool], full: bool) -> Vec<Fail> {
    let scope = scope_for(&ctx.prop);
    battery_scoped(ctx, x, model, full, scope, None)
}

/// `other`: compare against this vector instead of a fresh twin (metamorphic uses: two results that must be
/// indistinguishable). `scope` None = every family.
pub fn battery_scoped<T: Subject + AllPairs>(ctx: &mut Ctx, x: &T, model: &[bool], full: bool, scope: Option<&'static [G]>, other: Option<&T>) -> Vec<Fail> {
    // a narrowly scoped battery (own family only) is short: always run all of it; one that includes the pure
    // observers runs its own family always and the expensive observers on the sampled `full` subjects
    let wide = scope.map_or(false, |sc| sc.contains(&G::Query));
    let full = (full || (scope.is_some() && !wide)) && !(ctx.lite_only && scope.is_none());
    if let Some(sc) = scope {
        if sc.is_empty() {
            return vec![];
        }
    }
    VISIBLE_ONLY.with(|v| v.set(scope.is_some() && !wide));
    let r = battery_inner(ctx, x, model, full, scope, other);
    VISIBLE_ONLY.with(|v| v.set(false));
    r
}

fn battery_inner<T: Subject + AllPairs>(ctx: &mut Ctx, x: &T, model: &[bool], full: bool, scope: Option<&'static [G]>, other: Option<&T>) -> Vec<Fail> {
    let n = model.len();
    // subject readable and equal to the model?
    let rb = guarded(|| (x.len(), read_bits(x)));
    match rb {
        Ok((l, bits)) => {
            if l != n || bits != model {
                return vec![Fail {
                    item: "bits".into(),
                    detail: format!(
                        "subject len {} bits {} ; expected len {} bits {}",
                        l,
                        model::to_str(&bits),
                        n,
                        model::to_str(model)
                    ),
                }];
            }
        }
        Err(p) => {
            return vec![Fail {
                item: "bits".into(),
                detail: format!("reading the subject panicked: {}", p.short()),
            }]
        }
    }
    let twin = match other {
        Some(o) => o.clone(),
        None => match guarded(|| {
            let t: T = build_set(model);
            let ok = t.len() == n && read_bits(&t) == model;
            (t, ok)
        }) {
            Ok((t, true)) => t,
            _ => {
                ctx.bucket("battery:twin-unreliable");
                return vec![];
            }
        },
    };
    if full {
        ctx.battery_full += 1;
    } else {
        ctx.battery_lite += 1;
    }

    let cap = T::FIXED_CAP;
    let fit = |target: usize| cap.map_or(target, |c| target.min(c));
    let wb = T::WORD_BITS;
    let mut b = B { x, twin: &twin, fails: vec![], calls: 0, scope, full, in_full: false };

    // ---------------- observers (lite) ----------------
    b.d(G::Query, "is_zero", |y| y.is_zero());
    b.d(G::Bytes, "to_vec(Little)", |y| y.to_vec(Endianness::Little));
    b.d(G::Query, "leading_zeros", |y| y.leading_zeros());
    b.d(G::Query, "trailing_zeros", |y| y.trailing_zeros());
    b.d(G::Query, "significant_bits", |y| y.significant_bits());
    b.d(G::Text, "fmt {:x}", |y| format!("{:x}", y));
    b.d(G::Cmp, "y == twin", |y| y == &twin);
    b.d(G::Cmp, "twin == y", |y| &twin == y);
    b.d(G::Cmp, "y.cmp(twin)", |y| y.cmp(&twin));
    {
        let t1 = fit((n / wb + 1) * wb + 1);
        if t1 > n {
            b.d(G::Edit, "probe resize(next word+1, Zero)", |y| {
                let mut c = y.clone();
                c.resize(t1, Bit::Zero);
                basic(&c)
            });
        }
    }

    b.in_full = true;
    if full || scope.is_some() {
        // ---------------- observers (full) ----------------
        b.d(G::Iter, "is_empty", |y| y.is_empty());
        b.d(G::Iter, "first", |y| y.first());
        b.d(G::Iter, "last", |y| y.last());
        b.d(G::Iter, "iter", |y| y.iter().collect::<Vec<Bit>>());
        b.d(G::Iter, "iter.rev", |y| y.iter().rev().collect::<Vec<Bit>>());
        b.d(G::Iter, "&y into_iter", |y| y.ref_into_iter().collect::<Vec<Bit>>());
        b.d(G::Bytes, "to_vec(Big)", |y| y.to_vec(Endianness::Big));
        b.d(G::Bytes, "write(Little)", |y| {
            let mut w = Vec::new();
            let r = y.write(&mut w, Endianness::Little).is_ok();
            (r, w)
        });
        b.d(G::Bytes, "write(Big)", |y| {
            let mut w = Vec::new();
            let r = y.write(&mut w, Endianness::Big).is_ok();
            (r, w)
        });
        b.d(G::Query, "leading_ones", |y| y.leading_ones());
        b.d(G::Query, "trailing_ones", |y| y.trailing_ones());
        if n <= 600 {
            b.d(G::Text, "fmt matrix", |y| model::fmt_all(y));
        } else {
            // decimal formatting is quadratic (repeated division by ten): for long vectors only the power-of-two radixes
            b.d(G::Text, "fmt matrix (no decimal)", |y| model::fmt_nodec(y));
        }
        b.d(G::Hash, "hash stream", |y| hash_stream(y));
        b.d(G::Hash, "DefaultHasher", |y| default_hash(y));
        b.d(G::Cmp, "twin.cmp(y)", |y| twin.cmp(y));
        b.d(G::Cmp, "partial_cmp", |y| y.partial_cmp(&twin));
        for ty in ALL_UTY {
            b.d(G::Uint, &format!("{}::try_from(&y)", ty.name()), |y| y.to_uint(ty, true));
            b.d(G::Uint, &format!("{}::try_from(y)", ty.name()), |y| y.to_uint(ty, false));
        }
        // conversions to the other implementations, observed through the target's own observers
        b.d(G::Conv, "Bvd::from(&y)", |y| <T as Pair<Bvd>>::conv_ref(y).map(|c| basic(&c)));
        b.d(G::Conv, "Bv::from(&y)", |y| <T as Pair<Bv>>::conv_ref(y).map(|c| basic(&c)));
        b.d(G::Conv, "Bvf<u64,3>::try_from(&y)", |y| <T as Pair<T9>>::conv_ref(y).map(|c| basic(&c)));
        b.d(G::Conv, "Bvf<u8,7>::try_from(&y)", |y| <T as Pair<T2>>::conv_ref(y).map(|c| basic(&c)));
        b.d(G::Conv, "Bvf<u128,3>::try_from(&y)", |y| <T as Pair<T11>>::conv_ref(y).map(|c| basic(&c)));
        b.d(G::Conv, "Bvd::from(y)", |y| <T as Pair<Bvd>>::conv_val(y.clone()).map(|r| r.map(|c| basic(&c))));
        b.d(G::Conv, "Bv::from(y)", |y| <T as Pair<Bv>>::conv_val(y.clone()).map(|r| r.map(|c| basic(&c))));
        // mixed-type comparisons against fresh vectors of the other implementations
        if let Ok((td, ta, tw)) = guarded(|| {
            let td: Bvd = build_set(model);
            let ta: Bv = build_set(model);
            let mut plus1 = model.to_vec();
            plus1.push(true);
            let tw: Bvd = build_set(&plus1);
            (td, ta, tw)
        }) {
            b.d(G::Cmp, "cmp with fresh Bvd", |y| <T as Pair<Bvd>>::cmp_all(y, &td));
            b.d(G::Cmp, "cmp with fresh Bv", |y| <T as Pair<Bv>>::cmp_all(y, &ta));
            b.d(G::Cmp, "fresh Bvd cmp y", |y| T::bvd_cmp(&td, y));
            b.d(G::Cmp, "fresh Bv cmp y", |y| T::bv_cmp(&ta, y));
            b.d(G::Cmp, "cmp with longer Bvd", |y| <T as Pair<Bvd>>::cmp_all(y, &tw));
            // arithmetic / logic with the subject as the *right-hand* operand of a fresh vector
            b.d(G::Arith, "fresh Bvd + y", |y| basic(&T::bvd_bin(&tw, Op::Add, Form::RR, y)));
            b.d(G::Logic, "fresh Bvd | y", |y| basic(&T::bvd_bin(&tw, Op::Or, Form::AR, y)));
            b.d(G::Logic, "fresh Bv ^ y", |y| basic(&T::bv_bin(&ta, Op::Xor, Form::RR, y)));
            b.d(G::Arith, "fresh Bvd * y", |y| basic(&T::bvd_bin(&tw, Op::Mul, Form::RR, y)));
            // a fresh left operand two storage words longer than y: word loops of the left operand then run past y's used
            // words (into spare capacity words, which must behave as zeros)
            if let Ok(tl) = guarded(|| {
                let mut long = model.to_vec();
                long.resize(model.len() + 131, false);
                long[model.len() + 130] = true;
                let tl: Bvd = build_set(&long);
                tl
            }) {
                b.d(G::Arith, "fresh long Bvd + y", |y| basic(&T::bvd_bin(&tl, Op::Add, Form::AR, y)));
                b.d(G::Arith, "fresh long Bvd - y", |y| basic(&T::bvd_bin(&tl, Op::Sub, Form::RR, y)));
                b.d(G::Arith, "fresh long Bvd * y", |y| basic(&T::bvd_bin(&tl, Op::Mul, Form::RR, y)));
                b.d(G::Logic, "fresh long Bvd ^ y", |y| basic(&T::bvd_bin(&tl, Op::Xor, Form::RR, y)));
                b.d(G::Logic, "fresh long Bvd & y", |y| basic(&T::bvd_bin(&tl, Op::And, Form::AR, y)));
                b.d(G::Cmp, "fresh long Bvd cmp y", |y| T::bvd_cmp(&tl, y));
                b.d(G::Div, "fresh long Bvd % y", |y| if y.is_zero() { None } else { Some(basic(&T::bvd_bin(&tl, Op::Rem, Form::RR, y))) });
            }
            b.d(G::Edit, "fresh Bvd.append(y)", |y| {
                let mut c = tw.clone();
                c.append(y);
                basic(&c)
            });
            b.d(G::Edit, "fresh Bv.prepend(y)", |y| {
                if y.is_empty() {
                    return None;
                }
                let mut c = ta.clone();
                c.prepend(y);
                Some(basic(&c))
            });
        }

        // ---------------- next-operation probes ----------------
        let growths = [
            n + 1,
            (n / 8 + 1) * 8,
            (n / wb + 1) * wb,
            (n / wb + 2) * wb + 3,
            n + 130,
        ];
        for g in growths {
            let t = fit(g);
            if t > n {
                b.d(G::Edit, &format!("probe resize(+{}, Zero)", t - n), |y| {
                    let mut c = y.clone();
                    c.resize(t, Bit::Zero);
                    basic(&c)
                });
                b.d(G::Edit, &format!("probe resize(+{}, One)", t - n), |y| {
                    let mut c = y.clone();
                    c.resize(t, Bit::One);
                    basic(&c)
                });
            }
        }
        {
            let pushes = fit(n + 9) - n;
            if pushes > 0 {
                b.d(G::Edit, "probe push(Zero)*k", |y| {
                    let mut c = y.clone();
                    for _ in 0..pushes {
                        c.push(Bit::Zero);
                    }
                    basic(&c)
                });
            }
            if fit(n + 1) > n {
                b.d(G::Edit, "probe append(zeros(1))", |y| {
                    let mut c = y.clone();
                    c.append(&T::zeros(1));
                    basic(&c)
                });
                b.d(G::Edit, "probe prepend(ones(1))", |y| {
                    let mut c = y.clone();
                    c.prepend(&T::ones(1));
                    basic(&c)
                });
            }
            if fit(n + 11) >= n + 11 {
                b.d(G::Edit, "probe append(Bvd 11 bits)", |y| {
                    let mut c = y.clone();
                    let s: Bvd = build_set(&[true, false, false, false, false, false, false, false, false, false, true]);
                    c.append(&s);
                    basic(&c)
                });
            }
            let se = fit(n + 5);
            if se > n {
                b.d(G::Edit, "probe sign_extend", |y| {
                    let mut c = y.clone();
                    c.sign_extend(se);
                    basic(&c)
                });
                b.d(G::Edit, "probe extend(3 bits)", |y| {
                    let mut c = y.clone();
                    let k = (se - y.len()).min(3);
                    c.extend_bits((0..k).map(|i| bit(i == 1)));
                    basic(&c)
                });
            }
        }
        b.d(G::Edit, "probe pop", |y| {
            let mut c = y.clone();
            let p = c.pop();
            (p, basic(&c))
        });
        b.d(G::Logic, "probe !y", |y| basic(&y.not_r()));
        b.d(G::Logic, "probe !y (owned)", |y| basic(&y.clone().not_v()));
        b.d(G::Arith, "probe y + 0u8", |y| basic(&T::bin_uint(y, Op::Add, Form::RV, UInt::U8(0))));
        b.d(G::Arith, "probe y - 1u8", |y| basic(&T::bin_uint(y, Op::Sub, Form::AV, UInt::U8(1))));
        b.d(G::Arith, "probe y * 3u16", |y| basic(&T::bin_uint(y, Op::Mul, Form::RR, UInt::U16(3))));
        b.d(G::Div, "probe y / 3u8", |y| basic(&T::bin_uint(y, Op::Div, Form::RV, UInt::U8(3))));
        b.d(G::Div, "probe y % 7u64", |y| basic(&T::bin_uint(y, Op::Rem, Form::VV, UInt::U64(7))));
        b.d(G::Logic, "probe y & MAX", |y| basic(&T::bin_uint(y, Op::And, Form::AR, UInt::U128(u128::MAX))));
        b.d(G::Logic, "probe y | 0u8", |y| basic(&T::bin_uint(y, Op::Or, Form::VV, UInt::U8(0))));
        b.d(G::Logic, "probe y ^ 0u8", |y| basic(&T::bin_uint(y, Op::Xor, Form::RR, UInt::U8(0))));
        b.d(G::Arith, "probe y + y", |y| basic(&<T as Pair<T>>::bin(y, Op::Add, Form::RR, y)));
        b.d(G::Arith, "probe y - twin", |y| basic(&<T as Pair<T>>::bin(y, Op::Sub, Form::AR, &twin)));
        b.d(G::Arith, "probe twin - y", |y| basic(&<T as Pair<T>>::bin(&twin, Op::Sub, Form::RR, y)));
        b.d(G::Arith, "probe y * y", |y| basic(&<T as Pair<T>>::bin(y, Op::Mul, Form::RR, y)));
        b.d(G::Shift, "probe y << 0u8", |y| basic(&T::shift(y, true, Form::RV, UInt::U8(0))));
        b.d(G::Shift, "probe y << 1usize", |y| basic(&T::shift(y, true, Form::AV, UInt::Usize(1))));
        b.d(G::Shift, "probe y >> 1u32", |y| basic(&T::shift(y, false, Form::RR, UInt::U32(1))));
        b.d(G::Shift, "probe y >> 0u64", |y| basic(&T::shift(y, false, Form::VV, UInt::U64(0))));
        b.d(G::Shift, "probe shl_in(One)", |y| {
            let mut c = y.clone();
            let o = c.shl_in(Bit::One);
            (o, basic(&c))
        });
        b.d(G::Shift, "probe shr_in(One)", |y| {
            let mut c = y.clone();
            let o = c.shr_in(Bit::One);
            (o, basic(&c))
        });
        if n > 0 {
            b.d(G::Rot, "probe rotl(1)", |y| {
                let mut c = y.clone();
                c.rotl(1);
                basic(&c)
            });
            b.d(G::Rot, "probe rotr(1)", |y| {
                let mut c = y.clone();
                c.rotr(1);
                basic(&c)
            });
            b.d(G::Slice, "probe copy_range(1..len)", |y| basic(&y.copy_range(1..y.len())));
            b.d(G::Div, "probe div_rem(twin)", |y| {
                if twin.is_zero() {
                    return None;
                }
                let (q, r) = T::div_rem_self(y, &twin);
                Some((basic(&q), basic(&r)))
            });
        }
        b.d(G::Slice, "probe copy_range(0..len)", |y| basic(&y.copy_range(0..y.len())));
        b.d(G::Slice, "probe split_off(len/2)", |y| {
            let mut c = y.clone();
            let h = c.split_off(y.len() / 2);
            (basic(&h), basic(&c))
        });
        b.d(G::Conv, "probe clone", |y| basic(&y.clone()));
        b.d(G::Conv, "probe T::try_from(&y)", |y| <T as Pair<T>>::conv_ref(y).map(|c| basic(&c)));
        b.d(G::Cap, "probe reserve+shrink", |y| {
            let mut c = y.clone();
            c.reserve_x(77);
            let a = basic(&c);
            c.shrink_x();
            (a, basic(&c))
        });
        b.d(G::Conv, "probe rebuild(into_inner)", |y| y.clone().rebuild().map(|c| basic(&c)));
    }

    ctx.observer_calls += b.calls * 2;
    b.fails
}
