//! Shared judging helpers: compare a returned vector with the model's prediction, then run the
//! differential battery on it, emitting violations with classification signatures.

use crate::battery::battery;
use crate::exec::{guarded, PanicInfo};
use crate::model::{self, Bits, Op};
use crate::report::Ctx;
use crate::spec::{build, read_bits, snap, Snap, Spec};
use crate::types::*;
use crate::with_type;

/// Length relation class of (n = len a, m = len b, capacity of a's type) for signatures/buckets.
pub fn len_rel(n: usize, m: usize, cap_a: Option<usize>) -> &'static str {
    if let Some(c) = cap_a {
        if m > c {
            return "m>cap";
        }
    }
    if m > n {
        "m>n"
    } else if m == n {
        "m=n"
    } else {
        "m<n"
    }
}

/// Judge one returned vector: (len, bits) against `expected`, then the battery.
/// Returns true when everything agreed.
pub fn check_result<A: Subject + AllPairs>(
    ctx: &mut Ctx,
    what: &str,
    sig: &str,
    case: &str,
    res: &A,
    expected: &[bool],
    full: bool,
) -> bool {
    ctx.note_len(expected.len());
    let got = guarded(|| (res.len(), read_bits(res)));
    match got {
        Ok((l, bits)) => {
            if l != expected.len() || bits != expected {
                ctx.violation(
                    &format!("{}:result", what),
                    sig,
                    case,
                    format!(
                        "{} returned len {} bits {} ; the model says len {} bits {}",
                        A::NAME,
                        l,
                        model::to_str(&bits),
                        expected.len(),
                        model::to_str(expected)
                    ),
                );
                return false;
            }
        }
        Err(p) => {
            ctx.violation(
                &format!("{}:result-unreadable", what),
                sig,
                case,
                format!("reading the result panicked: {}", p.short()),
            );
            return false;
        }
    }
    // state accounting (diagnostic): raw padding
    if let Ok(s) = snap(res) {
        let dirty = s.raw.dirty(s.len);
        let h = model::hash_bits(&s.bits)
            ^ ((A::IDX as u64) << 56)
            ^ ((s.cap as u64).wrapping_mul(0x9E37_79B9))
            ^ ((s.raw.heap as u64) << 55)
            ^ ((dirty as u64) << 54);
        ctx.states.insert(h);
        if dirty {
            *ctx.dirty_after.entry(what.to_string()).or_insert(0) += 1;
        }
    }
    let fails = battery(ctx, res, expected, full);
    let ok = fails.is_empty();
    for f in fails {
        ctx.violation(
            &format!("{}:hidden-state", what),
            sig,
            case,
            format!(
                "after {} the result (len {} bits {}) is distinguishable from a fresh {} with the same bits: {} : {}",
                what,
                expected.len(),
                model::to_str(expected),
                A::NAME,
                f.item,
                f.detail
            ),
        );
    }
    ok
}

pub struct BinRun<A> {
    pub results: Vec<(Form, Result<A, PanicInfo>)>,
    pub a_changed: Option<String>,
    pub b_changed: Option<String>,
    pub fellback: bool,
}

fn snap_diff(before: &Result<Snap, PanicInfo>, after: &Result<Snap, PanicInfo>) -> Option<String> {
    match (before, after) {
        (Ok(b), Ok(a)) => {
            if a != b {
                Some(format!("before {:?} after {:?}", b, a))
            } else {
                None
            }
        }
        _ => None,
    }
}

fn run_bin_pair<A: Subject + Pair<B>, B: Subject>(
    a_spec: &Spec,
    b_spec: &Spec,
    op: Op,
    forms: &[Form],
    snaps: bool,
) -> BinRun<A> {
    let (a, f1) = build::<A>(a_spec);
    let (b, f2) = build::<B>(b_spec);
    let a0 = if snaps { Some(snap(&a)) } else { None };
    let b0 = if snaps { Some(snap(&b)) } else { None };
    let mut results = Vec::with_capacity(forms.len());
    for f in forms {
        let r = guarded(|| <A as Pair<B>>::bin(&a, op, *f, &b));
        results.push((*f, r));
    }
    let (a_changed, b_changed) = if snaps {
        (
            snap_diff(a0.as_ref().unwrap(), &snap(&a)),
            snap_diff(b0.as_ref().unwrap(), &snap(&b)),
        )
    } else {
        (None, None)
    };
    BinRun { results, a_changed, b_changed, fellback: f1 || f2 }
}

/// Execute `a op b` in the given forms with A the left type and the right type taken from the spec.
pub fn run_bin<A: Subject + AllPairs>(
    a_spec: &Spec,
    b_spec: &Spec,
    op: Op,
    forms: &[Form],
    snaps: bool,
) -> BinRun<A> {
    with_type!(b_spec.ty, B, { run_bin_pair::<A, B>(a_spec, b_spec, op, forms, snaps) })
}

/// Expected bits of `a op x` for a native integer x (value zero-extended / used numerically).
pub fn expect_uint(op: Op, a: &[bool], x: UInt) -> Option<Bits> {
    let xb = model::from_u128(x.val(), x.ty().bits());
    model::binop(op, a, &xb)
}

pub fn sig_hash(parts: &[u64]) -> u64 {
    let mut h = 0xcbf2_9ce4_8422_2325u64;
    for p in parts {
        for b in p.to_le_bytes() {
            h ^= b as u64;
            h = h.wrapping_mul(0x0000_0100_0000_01B3);
        }
    }
    h
}
