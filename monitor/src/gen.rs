//! Workload generators: boundary lengths, the word-boundary corner lattice of values, exhaustive
//! small values, and seeded random draws.

use crate::model::Bits;
use crate::rng::Rng;
use crate::types::*;

/// Lengths around the word boundaries of word size `w` (and of a second word size `w2`), bounded
/// by `cap` (fixed capacity) or `max` (dynamic types).
pub fn boundary_lens(w: usize, w2: usize, cap: Option<usize>, max: usize) -> Vec<usize> {
    let limit = cap.unwrap_or(max);
    let mut v = vec![0usize, 1, 2, 3, 7, 8, 9];
    for ww in [w, w2, 64] {
        for k in 1..=4 {
            let b = ww * k;
            for d in [-1i64, 0, 1] {
                let x = b as i64 + d;
                if x >= 0 {
                    v.push(x as usize);
                }
            }
        }
    }
    if let Some(c) = cap {
        v.push(c);
        v.push(c.saturating_sub(1));
        v.push(c.saturating_sub(2));
    }
    v.push(limit);
    v.retain(|x| *x <= limit);
    v.sort();
    v.dedup();
    v
}

/// Lengths well beyond the fixed capacities, for the dynamic and auto types: word boundaries of 64 and their
/// neighbours up to 4097 bits plus a few "odd" ones.
pub fn long_lens(tier: crate::report::Tier) -> Vec<usize> {
    match tier {
        crate::report::Tier::Tiny => vec![513, 1025],
        crate::report::Tier::Quick => vec![257, 320, 511, 512, 513, 520, 577, 640, 777, 1023, 1024, 1025, 2049, 4097],
        crate::report::Tier::Thorough => vec![
            257, 319, 320, 321, 383, 384, 385, 448, 511, 512, 513, 520, 575, 576, 577, 639, 640, 641, 777, 1000, 1023, 1024, 1025, 1088, 1500,
            2047, 2048, 2049, 3000, 4095, 4096, 4097, 8191, 8193,
        ],
    }
}

/// Default maximum length used for the dynamic types in boundary sweeps.
pub fn dyn_max(tier: crate::report::Tier) -> usize {
    tier.pick(130, 200, 260)
}

/// Word atoms for word width w (as u128, masked by the caller).
fn atoms(w: usize, rng: &mut Rng) -> Vec<u128> {
    let max = crate::model::mask128(w);
    let msb = 1u128 << (w - 1);
    vec![
        0,
        1,
        2,
        max,
        max - 1,
        msb,
        msb - 1,
        msb | 1,
        0x5555_5555_5555_5555_5555_5555_5555_5555 & max,
        0xAAAA_AAAA_AAAA_AAAA_AAAA_AAAA_AAAA_AAAA & max,
        rng.u128() & max,
    ]
}

fn from_words(words: &[u128], w: usize, n: usize) -> Bits {
    (0..n)
        .map(|i| {
            let wi = i / w;
            wi < words.len() && (words[wi] >> (i % w)) & 1 == 1
        })
        .collect()
}

/// The corner lattice of n-bit values for word width w: every per-word carry / borrow /
/// partial-product / mask pattern occurs. ~20-30 values, deduplicated.
pub fn lattice(n: usize, w: usize, rng: &mut Rng) -> Vec<Bits> {
    if n == 0 {
        return vec![vec![]];
    }
    let nw = (n + w - 1) / w;
    let at = atoms(w, rng);
    let max = crate::model::mask128(w);
    let mut out: Vec<Bits> = Vec::new();
    // every word the same atom
    for a in &at {
        out.push(from_words(&vec![*a; nw], w, n));
    }
    if nw > 1 {
        // all-ones low words with each atom on top (carry ripples through every full word)
        for a in [0u128, 1, max - 1, 1u128 << (w - 1)] {
            let mut ws = vec![max; nw];
            ws[nw - 1] = a;
            out.push(from_words(&ws, w, n));
        }
        // zero low words with an atom on top (borrow through zero words)
        for a in [1u128, max, 1u128 << (w - 1)] {
            let mut ws = vec![0u128; nw];
            ws[nw - 1] = a;
            out.push(from_words(&ws, w, n));
        }
        // single low atom, zeros above
        for a in [1u128, max, 2] {
            let mut ws = vec![0u128; nw];
            ws[0] = a;
            out.push(from_words(&ws, w, n));
        }
        // alternating MAX / 0 words
        let ws: Vec<u128> = (0..nw).map(|i| if i % 2 == 0 { max } else { 0 }).collect();
        out.push(from_words(&ws, w, n));
        let ws: Vec<u128> = (0..nw).map(|i| if i % 2 == 1 { max } else { 0 }).collect();
        out.push(from_words(&ws, w, n));
        // random words
        let ws: Vec<u128> = (0..nw).map(|_| rng.u128() & max).collect();
        out.push(from_words(&ws, w, n));
    }
    // single bits at the ends
    let mut b = vec![false; n];
    b[n - 1] = true;
    out.push(b);
    let mut b = vec![true; n];
    b[n - 1] = false;
    out.push(b);
    out.sort();
    out.dedup();
    out
}

/// A smaller lattice (for operands on the right-hand side / inner loops).
pub fn lattice_small(n: usize, w: usize, rng: &mut Rng) -> Vec<Bits> {
    if n == 0 {
        return vec![vec![]];
    }
    let nw = (n + w - 1) / w;
    let max = crate::model::mask128(w);
    let mut out: Vec<Bits> = vec![
        vec![false; n],
        vec![true; n],
        from_words(&vec![1u128; 1], w, n),
        from_words(&(0..nw).map(|_| rng.u128() & max).collect::<Vec<_>>(), w, n),
    ];
    let mut ws = vec![max; nw];
    ws[nw - 1] = 0;
    out.push(from_words(&ws, w, n));
    let mut ws = vec![0u128; nw];
    ws[nw - 1] = 1u128 << ((n - 1) % w);
    out.push(from_words(&ws, w, n));
    let mut b = vec![false; n];
    b[n - 1] = true;
    b[0] = true;
    out.push(b);
    out.sort();
    out.dedup();
    out
}

pub fn all_values(n: usize) -> impl Iterator<Item = Bits> {
    assert!(n <= 24);
    (0u32..(1u32 << n)).map(move |v| (0..n).map(|i| (v >> i) & 1 == 1).collect())
}

pub fn random_bits(n: usize, rng: &mut Rng) -> Bits {
    // mixture: uniform, sparse, dense, runs
    match rng.below(5) {
        0 => (0..n).map(|_| rng.bool()).collect(),
        1 => (0..n).map(|_| rng.chance(1, 12)).collect(),
        2 => (0..n).map(|_| !rng.chance(1, 12)).collect(),
        3 => {
            // runs of random length
            let mut v = Vec::with_capacity(n);
            let mut cur = rng.bool();
            while v.len() < n {
                let run = 1 + rng.below(70);
                for _ in 0..run.min(n - v.len()) {
                    v.push(cur);
                }
                cur = !cur;
            }
            v
        }
        _ => {
            let mut v = vec![rng.bool(); n];
            if n > 0 {
                let i = rng.below(n);
                v[i] = !v[i];
            }
            v
        }
    }
}

/// A length for type `ty`: mostly near word boundaries, sometimes uniform.
pub fn random_len(ty: usize, max_dyn: usize, rng: &mut Rng) -> usize {
    let cap = TYPE_FIXED_CAP[ty];
    let limit = cap.unwrap_or(max_dyn);
    if rng.chance(1, 2) {
        let v = boundary_lens(TYPE_WORD_BITS[ty], 8, cap, max_dyn);
        *rng.pick(&v)
    } else {
        rng.range(0, limit)
    }
}

/// Hostile shift / rotate / index amounts.
pub fn hostile_amounts(n: usize, w: usize) -> Vec<u128> {
    let mut v: Vec<u128> = vec![
        0,
        1,
        2,
        7,
        8,
        9,
        (w - 1) as u128,
        w as u128,
        (w + 1) as u128,
        (2 * w) as u128,
        63,
        64,
        65,
        127,
        128,
        129,
        n.saturating_sub(1) as u128,
        n as u128,
        (n + 1) as u128,
        255,
        256,
        65535,
        65536,
        (1u128 << 32) - 1,
        1u128 << 32,
        (1u128 << 32) + 1,
        (1u128 << 63) - 1,
        1u128 << 63,
        u64::MAX as u128 - 1,
        u64::MAX as u128,
        1u128 << 64,
        (1u128 << 64) + 1,
        (1u128 << 64) + n as u128,
        1u128 << 100,
        u128::MAX - 1,
        u128::MAX,
    ];
    v.sort();
    v.dedup();
    v
}
