//! C13: to_vec / write / from_bytes / read, with fault injection at the Read / Write boundary.

use std::io::{self, Read, Write};

use crate::case::{hex_dec, hex_enc, Case};
use crate::exec::guarded;
use crate::gen;
use crate::judge::*;
use crate::model::{self, Bits};
use crate::report::{Ctx, Tier};
use crate::rng::Rng;
use crate::spec::{build, read_bits, Spec, Via};
use crate::types::*;
use crate::with_type;

fn via_for(ty: usize, rng: &mut Rng) -> Via {
    let v = *rng.pick(&crate::spec::VIAS_ALL);
    match v {
        Via::Spare(_) if TYPE_FIXED_CAP[ty].is_some() => Via::Set,
        Via::Spare(_) => Via::Spare(*rng.pick(&[1usize, 64, 65, 200])),
        v => v,
    }
}

fn endian(big: bool) -> Endianness {
    if big {
        Endianness::Big
    } else {
        Endianness::Little
    }
}

fn model_bytes(bits: &[bool], big: bool) -> Vec<u8> {
    if big {
        model::bytes_be(bits)
    } else {
        model::bytes_le(bits)
    }
}

/// Scripted reader: kind 0 plain, 1 one byte per call, 2 sporadic `Interrupted` + short reads,
/// 3 fails with `Other` after `fail_after` bytes, 4 `WouldBlock`-free EOF in the middle (short data).
pub struct ScriptReader {
    pub data: Vec<u8>,
    pub pos: usize,
    pub kind: u8,
    pub calls: usize,
    pub fail_after: usize,
}

impl Read for ScriptReader {
    fn read(&mut self, buf: &mut [u8]) -> io::Result<usize> {
        self.calls += 1;
        if buf.is_empty() {
            return Ok(0);
        }
        let avail = self.data.len() - self.pos;
        let take = match self.kind {
            0 => avail.min(buf.len()),
            1 => avail.min(1),
            2 => {
                if self.calls % 2 == 1 {
                    return Err(io::Error::new(io::ErrorKind::Interrupted, "injected interruption"));
                }
                avail.min(buf.len()).min(3)
            }
            3 => {
                if self.pos >= self.fail_after {
                    return Err(io::Error::new(io::ErrorKind::Other, "injected failure"));
                }
                avail.min(buf.len()).min(self.fail_after - self.pos)
            }
            _ => avail.min(buf.len()),
        };
        let take = take.min(avail);
        buf[..take].copy_from_slice(&self.data[self.pos..self.pos + take]);
        self.pos += take;
        Ok(take)
    }
}

/// Scripted writer: kind 0 plain, 1 accepts one byte per call, 2 sporadic `Interrupted`,
/// 3 fails after `fail_after` bytes, 4 returns Ok(0) (write_all must report WriteZero).
pub struct ScriptWriter {
    pub got: Vec<u8>,
    pub kind: u8,
    pub calls: usize,
    pub fail_after: usize,
}

impl Write for ScriptWriter {
    fn write(&mut self, buf: &[u8]) -> io::Result<usize> {
        self.calls += 1;
        let take = match self.kind {
            0 => buf.len(),
            1 => buf.len().min(1),
            2 => {
                if self.calls % 2 == 1 {
                    return Err(io::Error::new(io::ErrorKind::Interrupted, "injected interruption"));
                }
                buf.len().min(2)
            }
            3 => {
                if self.got.len() >= self.fail_after {
                    return Err(io::Error::new(io::ErrorKind::Other, "injected failure"));
                }
                buf.len().min(self.fail_after - self.got.len())
            }
            _ => 0,
        };
        self.got.extend_from_slice(&buf[..take]);
        Ok(take)
    }
    fn flush(&mut self) -> io::Result<()> {
        Ok(())
    }
}

fn judge_tovec<A: Subject + AllPairs>(ctx: &mut Ctx, case: &Case, wl: &str) {
    let a = case.spec("a");
    let big = case.flag("big");
    let wk = case.opt("writer").map_or(0u8, |s| s.parse().expect("HARNESS-ERROR: writer"));
    let (av, _) = build::<A>(&a);
    let n = a.bits.len();
    let expected = model_bytes(&a.bits, big);
    let h = sig_hash(&[A::IDX as u64, 1300, big as u64, wk as u64, n as u64, model::hash_bits(&a.bits), model::hash64(a.via.enc().as_bytes())]);
    ctx.eval(h, n > 0 && !model::is_zero(&a.bits));
    if n % 8 != 0 {
        ctx.bucket("len-not-multiple-of-8");
    }
    ctx.bucket(if big { "endian:big" } else { "endian:little" });
    ctx.bucket(&format!("writer:{}", wk));
    let sig = format!("{}|to_vec/write|{}", type_class(A::IDX), if big { "big" } else { "little" });
    let cs = || Case::new("tovec").with("a", a.enc()).with("big", big as u8).with("writer", wk).enc();
    ctx.sample(wl, cs);
    match guarded(|| av.to_vec(endian(big))) {
        Ok(v) => {
            if v != expected {
                ctx.violation("to_vec", &sig, &cs(), format!("{}.to_vec = {} ; expected {}", a.describe(), hex_enc(&v), hex_enc(&expected)));
            }
        }
        Err(p) => ctx.violation("to_vec:panicked", &sig, &cs(), p.short()),
    }
    let fail_after = expected.len() / 2;
    let mut w = ScriptWriter { got: vec![], kind: wk, calls: 0, fail_after };
    match guarded(|| av.write(&mut w, endian(big))) {
        Ok(Ok(())) => {
            let must_fail = (wk == 3 || wk == 4) && !expected.is_empty();
            if must_fail {
                ctx.violation("write:error-swallowed", &sig, &cs(), format!("writer kind {} cannot accept {} bytes but write returned Ok", wk, expected.len()));
            } else if w.got != expected {
                ctx.violation("write", &sig, &cs(), format!("write emitted {} ; expected {}", hex_enc(&w.got), hex_enc(&expected)));
            }
        }
        Ok(Err(_)) => {
            if wk <= 2 || expected.is_empty() {
                ctx.violation("write:spurious-error", &sig, &cs(), format!("write into writer kind {} failed although every byte can be delivered", wk));
            } else {
                ctx.panics_expected += 1;
            }
        }
        Err(p) => ctx.violation("write:panicked", &sig, &cs(), p.short()),
    }
}

fn judge_frombytes<A: Subject + AllPairs>(ctx: &mut Ctx, case: &Case, wl: &str) {
    let bytes = hex_dec(case.get("bytes"));
    let big = case.flag("big");
    let fits = A::FIXED_CAP.map_or(true, |c| bytes.len() * 8 <= c);
    let mut le = bytes.clone();
    if big {
        le.reverse();
    }
    let expected = model::from_bytes_le(&le);
    let h = sig_hash(&[A::IDX as u64, 1301, big as u64, bytes.len() as u64, model::hash64(&bytes)]);
    ctx.eval(h, bytes.iter().any(|b| *b != 0));
    if !fits {
        ctx.bucket("from_bytes:over-capacity");
    }
    if A::FIXED_CAP == Some(bytes.len() * 8) {
        ctx.bucket("from_bytes:exactly-capacity");
    }
    let sig = format!("{}|from_bytes|{}", type_class(A::IDX), if big { "big" } else { "little" });
    let cs = || case.enc();
    ctx.sample(wl, cs);
    match guarded(|| A::from_bytes(&bytes, endian(big))) {
        Ok(Ok(v)) => {
            if fits {
                check_result::<A>(ctx, "from_bytes", &sig, &cs(), &v, &expected, h % 11 == 0);
            } else {
                ctx.violation("from_bytes:overflow-accepted", &sig, &cs(), format!("{} bytes into {} returned Ok(len {})", bytes.len(), A::NAME, v.len()));
            }
        }
        Ok(Err(e)) => {
            if fits || e != ConvertionError::NotEnoughCapacity {
                ctx.violation("from_bytes:wrong-error", &sig, &cs(), format!("{} bytes into {}: Err({:?})", bytes.len(), A::NAME, e));
            } else {
                ctx.panics_expected += 1;
            }
        }
        Err(p) => ctx.violation("from_bytes:panicked", &sig, &cs(), p.short()),
    }
}

fn judge_read<A: Subject + AllPairs>(ctx: &mut Ctx, case: &Case, wl: &str) {
    let bytes = hex_dec(case.get("bytes"));
    let len = case.usize("len");
    let big = case.flag("big");
    let rk: u8 = case.get("reader").parse().expect("HARNESS-ERROR: reader");
    let need = len / 8 + (len % 8 != 0) as usize;
    let fits = A::FIXED_CAP.map_or(true, |c| len <= c);
    let enough = bytes.len() >= need;
    let fail_after = need / 2;
    let reader_fails = rk == 3 && need > 0;
    let should_ok = fits && enough && !reader_fails;
    let expected: Bits = if should_ok {
        let mut le = bytes[..need].to_vec();
        if big {
            le.reverse();
        }
        let mut b = model::from_bytes_le(&le);
        b.truncate(len);
        b
    } else {
        vec![]
    };
    let h = sig_hash(&[A::IDX as u64, 1302, big as u64, rk as u64, len as u64, model::hash64(&bytes)]);
    ctx.eval(h, len > 0 && bytes.iter().any(|b| *b != 0));
    ctx.bucket(&format!("reader:{}", rk));
    if should_ok && len % 8 != 0 {
        // surplus bits of the most significant byte set?
        let top = if big { bytes[0] } else { bytes[need - 1] };
        if top >> (len % 8) != 0 {
            ctx.bucket("read:surplus-bits-set-in-top-byte");
            if len > A::WORD_BITS {
                ctx.bucket("read:surplus-bits-multi-word");
            }
        }
    }
    if !enough {
        ctx.bucket("read:short-input");
    }
    if !fits {
        ctx.bucket("read:over-capacity");
    }
    if bytes.len() > need {
        ctx.bucket("read:trailing-bytes-present");
    }
    let sig = format!("{}|read|{}", type_class(A::IDX), if big { "big" } else { "little" });
    let cs = || case.enc();
    ctx.sample(wl, cs);
    let mut r = ScriptReader { data: bytes.clone(), pos: 0, kind: rk, calls: 0, fail_after };
    match guarded(|| A::read(&mut r, len, endian(big))) {
        Ok(Ok(v)) => {
            if !should_ok {
                ctx.violation(
                    "read:error-swallowed",
                    &sig,
                    &cs(),
                    format!("{}::read(len {}) from {} byte(s) (reader kind {}) returned Ok(len {}) ; capacity fits: {}, enough input: {}", A::NAME, len, bytes.len(), rk, v.len(), fits, enough),
                );
                return;
            }
            if r.pos != need {
                ctx.violation("read:consumed", &sig, &cs(), format!("read(len {}) consumed {} byte(s) ; expected exactly {}", len, r.pos, need));
            }
            check_result::<A>(ctx, "read", &sig, &cs(), &v, &expected, true);
        }
        Ok(Err(_)) => {
            if should_ok {
                ctx.violation("read:spurious-error", &sig, &cs(), format!("{}::read(len {}) failed although {} byte(s) were available (reader kind {})", A::NAME, len, bytes.len(), rk));
            } else {
                ctx.panics_expected += 1;
            }
        }
        Err(p) => ctx.violation("read:panicked", &sig, &cs(), format!("{}::read(len {}) from {} byte(s) panicked: {}", A::NAME, len, bytes.len(), p.short())),
    }
}

fn judge_roundtrip<A: Subject + AllPairs>(ctx: &mut Ctx, case: &Case, wl: &str) {
    let a = case.spec("a");
    let big = case.flag("big");
    let (av, _) = build::<A>(&a);
    let n = a.bits.len();
    let h = sig_hash(&[A::IDX as u64, 1303, big as u64, n as u64, model::hash_bits(&a.bits), model::hash64(a.via.enc().as_bytes())]);
    ctx.eval(h, n > 0 && !model::is_zero(&a.bits));
    ctx.bucket("roundtrip");
    let sig = format!("{}|roundtrip|{}", type_class(A::IDX), if big { "big" } else { "little" });
    let cs = || case.enc();
    ctx.sample(wl, cs);
    let r = guarded(|| {
        let mut buf = Vec::new();
        av.write(&mut buf, endian(big)).map_err(|e| e.to_string())?;
        let mut cur = io::Cursor::new(buf.clone());
        let back = A::read(&mut cur, av.len(), endian(big)).map_err(|e| e.to_string())?;
        let fb = if A::FIXED_CAP.map_or(true, |c| buf.len() * 8 <= c) { Some(A::from_bytes(av.to_vec(endian(big)), endian(big)).map_err(|e| format!("{:?}", e))?) } else { None };
        Ok::<_, String>((back, fb))
    });
    match r {
        Ok(Ok((back, fb))) => {
            check_result::<A>(ctx, "read(write(v))", &sig, &cs(), &back, &a.bits, h % 5 == 0);
            if let Some(fb) = fb {
                let mut ext = a.bits.clone();
                ext.resize((n + 7) / 8 * 8, false);
                check_result::<A>(ctx, "from_bytes(to_vec(v))", &sig, &cs(), &fb, &ext, h % 5 == 0);
            }
            if let Ok(bits) = guarded(|| read_bits(&av)) {
                if bits != a.bits {
                    ctx.violation("roundtrip:source-changed", &sig, &cs(), model::to_str(&bits));
                }
            }
        }
        Ok(Err(e)) => ctx.violation("roundtrip:error", &sig, &cs(), format!("{}: {}", a.describe(), e)),
        Err(p) => ctx.violation("roundtrip:panicked", &sig, &cs(), p.short()),
    }
}

pub fn judge(ctx: &mut Ctx, case: &Case, wl: &str) {
    let ty = match case.kind.as_str() {
        "tovec" | "roundtrip" => case.spec("a").ty,
        _ => case.usize("ty"),
    };
    with_type!(ty, A, {
        match case.kind.as_str() {
            "tovec" => judge_tovec::<A>(ctx, case, wl),
            "frombytes" => judge_frombytes::<A>(ctx, case, wl),
            "read" => judge_read::<A>(ctx, case, wl),
            "roundtrip" => judge_roundtrip::<A>(ctx, case, wl),
            k => panic!("HARNESS-ERROR: io cannot judge case kind {}", k),
        }
    })
}

pub fn replay(ctx: &mut Ctx, case: &Case) {
    judge(ctx, case, "replay")
}

fn byte_patterns(n: usize, rng: &mut Rng) -> Vec<Vec<u8>> {
    let mut v = vec![vec![0xffu8; n], vec![0u8; n], (0..n).map(|i| (i as u8).wrapping_mul(17).wrapping_add(1)).collect(), (0..n).map(|_| rng.next() as u8).collect()];
    if n > 0 {
        let mut x = vec![0u8; n];
        x[0] = 0xff;
        v.push(x);
        let mut x = vec![0u8; n];
        x[n - 1] = 0xff;
        v.push(x);
        let mut x = vec![0xaau8; n];
        x[n / 2] = 0x55;
        v.push(x);
    }
    v.sort();
    v.dedup();
    v
}

pub fn run(ctx: &mut Ctx) {
    let tier = ctx.tier;
    let mut rng = Rng::derive(ctx.seed, 0x1313, 0);
    for ty in 0..NTYPES {
        let cap = TYPE_FIXED_CAP[ty];
        let w = TYPE_WORD_BITS[ty];
        let limit = cap.unwrap_or(tier.pick(140, 200, 300));
        // to_vec / write / roundtrip: every length x lattice x both endiannesses x paths
        for n in 0..=limit {
            if tier == Tier::Tiny && n % 7 != 0 && n != limit {
                continue;
            }
            let vals = gen::lattice_small(n, w, &mut rng);
            if !ctx.mine() {
                continue;
            }
            for va in &vals {
                for big in [false, true] {
                    let a = Spec::new(ty, va.clone(), via_for(ty, &mut rng));
                    let wk = [0u8, 0, 1, 2, 3, 4][rng.below(6)];
                    judge(ctx, &Case::new("tovec").with("a", a.enc()).with("big", big as u8).with("writer", wk), "W-every-length-lattice");
                    judge(ctx, &Case::new("roundtrip").with("a", a.enc()).with("big", big as u8), "W-every-length-lattice");
                }
            }
        }
        // from_bytes: 0..=cap/8+1 bytes
        let maxb = limit / 8 + 1;
        for nb in 0..=maxb {
            if !ctx.mine() {
                continue;
            }
            for pat in byte_patterns(nb, &mut rng) {
                for big in [false, true] {
                    judge(ctx, &Case::new("frombytes").with("ty", ty).with("bytes", hex_enc(&pat)).with("big", big as u8), "W-from_bytes");
                }
            }
        }
        // read: every len x byte patterns (top byte surplus bits set) x reader kinds
        for len in 0..=(limit + 9) {
            if tier != Tier::Thorough && len > 40 && len % 8 == 0 && len % 64 != 0 && rng.below(2) == 0 {
                continue;
            }
            if tier == Tier::Tiny && len % 5 != 0 {
                continue;
            }
            if !ctx.mine() {
                continue;
            }
            let need = (len + 7) / 8;
            for pat in byte_patterns(need, &mut rng) {
                for big in [false, true] {
                    for rk in [0u8, 1, 2] {
                        if rk > 0 && tier != Tier::Thorough && rng.below(3) != 0 {
                            continue;
                        }
                        judge(ctx, &Case::new("read").with("ty", ty).with("bytes", hex_enc(&pat)).with("len", len).with("big", big as u8).with("reader", rk), "W5-read-every-length");
                    }
                }
            }
            // short input, trailing bytes, failing reader
            let full: Vec<u8> = (0..need + 3).map(|_| rng.next() as u8 | 0x80).collect();
            for big in [false, true] {
                judge(ctx, &Case::new("read").with("ty", ty).with("bytes", hex_enc(&full)).with("len", len).with("big", big as u8).with("reader", 0), "W5-read-trailing-bytes");
                judge(ctx, &Case::new("read").with("ty", ty).with("bytes", hex_enc(&full)).with("len", len).with("big", big as u8).with("reader", 2), "W5-read-trailing-bytes");
                if need > 0 {
                    judge(ctx, &Case::new("read").with("ty", ty).with("bytes", hex_enc(&full[..need - 1])).with("len", len).with("big", big as u8).with("reader", (len % 3) as u8 % 3), "W5-read-short-input");
                    judge(ctx, &Case::new("read").with("ty", ty).with("bytes", "-").with("len", len).with("big", big as u8).with("reader", 0), "W5-read-short-input");
                    judge(ctx, &Case::new("read").with("ty", ty).with("bytes", hex_enc(&full)).with("len", len).with("big", big as u8).with("reader", 3), "W5-read-failing-reader");
                }
            }
        }
        // absurd lengths on fixed types: must be Err, not an overflow
        if cap.is_some() && ctx.mine() {
            for len in [usize::MAX, usize::MAX - 1, usize::MAX - 6, usize::MAX - 7, usize::MAX / 2, 1 << 40] {
                judge(ctx, &Case::new("read").with("ty", ty).with("bytes", "ffff").with("len", len).with("big", 0).with("reader", 0), "W4-absurd-length");
            }
            ctx.bucket("read:absurd-length-fixed");
        }
    }
    // long vectors (dynamic and auto types): word boundaries of 64 up to 4097 bits and odd lengths between
    for ty in [IDX_BVD, IDX_BV] {
        for n in gen::long_lens(tier) {
            if !ctx.mine() {
                continue;
            }
            for va in gen::lattice_small(n, 64, &mut rng) {
                for big in [false, true] {
                    let a = Spec::new(ty, va.clone(), via_for(ty, &mut rng));
                    for wk in [0u8, 1, 2] {
                        judge(ctx, &Case::new("tovec").with("a", a.enc()).with("big", big as u8).with("writer", wk), "W-long-vectors");
                    }
                    judge(ctx, &Case::new("roundtrip").with("a", a.enc()).with("big", big as u8), "W-long-vectors");
                    let mut bytes = model::bytes_le(&va);
                    if let Some(l) = bytes.last_mut() {
                        *l |= 0x80;
                    }
                    for rk in [0u8, 1, 2] {
                        judge(ctx, &Case::new("read").with("ty", ty).with("bytes", hex_enc(&bytes)).with("len", n).with("big", big as u8).with("reader", rk), "W-long-vectors");
                    }
                    judge(ctx, &Case::new("frombytes").with("ty", ty).with("bytes", hex_enc(&bytes)).with("big", big as u8), "W-long-vectors");
                }
            }
        }
    }
    // random
    let per = tier.pick(100, 25_000, 300_000) / ctx.nworkers + 1;
    let mut rng = Rng::derive(ctx.seed, 0x1314, ctx.worker as u64);
    for _ in 0..per {
        let ty = rng.below(NTYPES);
        let n = gen::random_len(ty, tier.pick(100, 400, 1200), &mut rng);
        let a = Spec::new(ty, gen::random_bits(n, &mut rng), via_for(ty, &mut rng));
        let big = rng.bool();
        judge(ctx, &Case::new("tovec").with("a", a.enc()).with("big", big as u8).with("writer", rng.below(5)), "W3-seeded-random");
        judge(ctx, &Case::new("roundtrip").with("a", a.enc()).with("big", big as u8), "W3-seeded-random");
        let need = (n + 7) / 8;
        let bytes: Vec<u8> = (0..need + rng.below(3)).map(|_| if rng.chance(1, 3) { 0xff } else { rng.next() as u8 }).collect();
        judge(ctx, &Case::new("read").with("ty", ty).with("bytes", hex_enc(&bytes)).with("len", n).with("big", rng.bool() as u8).with("reader", rng.below(3)), "W3-seeded-random");
    }
}

pub const REQUIRED_C13: &[&str] = &[
    "len-not-multiple-of-8", "endian:big", "endian:little", "writer:1", "writer:2", "writer:3", "writer:4",
    "from_bytes:over-capacity", "from_bytes:exactly-capacity", "reader:1", "reader:2", "reader:3",
    "read:surplus-bits-set-in-top-byte", "read:surplus-bits-multi-word", "read:short-input", "read:over-capacity",
    "read:trailing-bytes-present", "read:absurd-length-fixed", "roundtrip",
];
