//! C19: fixed-capacity overflow and bad arguments are signalled (panic-policy monitor).

use crate::case::{hex_enc, Case};
use crate::exec::guarded;
use crate::gen;
use crate::judge::sig_hash;
use crate::model;
use crate::report::Ctx;
use crate::rng::Rng;
use crate::spec::{build, build_set, Spec};
use crate::types::*;
use crate::with_type;

#[derive(Clone, Copy, PartialEq, Eq, Debug)]
enum Expect {
    /// must panic in every build
    Panic,
    /// must panic when debug assertions are on; not asserted otherwise
    PanicDbgOnly,
    /// must return Err
    Err,
}

/// Outcome of an attempt, reduced to what the policy table needs.
enum Outcome {
    /// returned normally; (len, capacity) of the vector that exists afterwards
    Returned(Option<(usize, usize)>),
    ReturnedErr,
    ReturnedOk(Option<(usize, usize)>),
}

fn lc<A: Subject>(x: &A) -> Option<(usize, usize)> {
    guarded(|| (x.len(), x.capacity())).ok()
}

/// fill patterns for the bits an operation adds: 0 all zeros, 1 all ones, 2 alternating from one, 3 alternating from zero
fn fill(pattern: usize, i: usize) -> Bit {
    bit(match pattern % 4 {
        0 => false,
        1 => true,
        2 => i % 2 == 0,
        _ => i % 2 == 1,
    })
}

fn attempt<A: Subject + AllPairs>(op: &str, a: &Spec, grow: usize, operand_ty: usize, index: usize, pattern: usize) -> (Expect, Result<Outcome, crate::exec::PanicInfo>) {
    let cap = A::FIXED_CAP.expect("HARNESS-ERROR: C19 runs on fixed types only");
    let n = a.bits.len();
    let over = n + grow; // the length the operation would produce
    let _ = over;
    let (av, _) = build::<A>(a);
    match op {
        "zeros" => (Expect::Panic, guarded(|| Outcome::Returned(lc(&A::zeros(cap + grow))))),
        "ones" => (Expect::Panic, guarded(|| Outcome::Returned(lc(&A::ones(cap + grow))))),
        "repeat" => (Expect::Panic, guarded(|| Outcome::Returned(lc(&A::repeat(Bit::One, cap + grow))))),
        "from_bytes" => {
            let nb = cap / 8 + grow;
            (Expect::Err, guarded(|| match A::from_bytes(vec![0xa5u8; nb], Endianness::Little) {
                Ok(v) => Outcome::ReturnedOk(lc(&v)),
                Err(_) => Outcome::ReturnedErr,
            }))
        }
        "from_binary" => {
            let s: String = (0..cap + grow).map(|i| if i % 3 == 0 { '1' } else { '0' }).collect();
            (Expect::Err, guarded(|| match A::from_binary(&s) {
                Ok(v) => Outcome::ReturnedOk(lc(&v)),
                Err(_) => Outcome::ReturnedErr,
            }))
        }
        "from_hex" => {
            let s: String = (0..cap / 4 + grow).map(|i| if i % 2 == 0 { 'f' } else { '1' }).collect();
            (Expect::Err, guarded(|| match A::from_hex(&s) {
                Ok(v) => Outcome::ReturnedOk(lc(&v)),
                Err(_) => Outcome::ReturnedErr,
            }))
        }
        "read" => {
            let len = cap + grow;
            let bytes = vec![0xffu8; len / 8 + 2];
            (Expect::Err, guarded(|| {
                let mut cur = std::io::Cursor::new(bytes.clone());
                match A::read(&mut cur, len, Endianness::Big) {
                    Ok(v) => Outcome::ReturnedOk(lc(&v)),
                    Err(_) => Outcome::ReturnedErr,
                }
            }))
        }
        "try_from_uint" => {
            // a value with cap + grow significant bits (when a native type can hold it)
            let sig = cap + grow;
            if sig > 128 {
                return (Expect::Err, Err(crate::exec::PanicInfo("HARNESS-SKIP".into())));
            }
            // value patterns: 1 all ones, 0 only the top bit (everything between the capacity and it is zero), 2 top bit
            // and bit 0, 3 alternating; in the native type selected by `oty` (or the narrowest that holds the value)
            let ones = if sig == 128 { u128::MAX } else { (1u128 << sig) - 1 };
            let x = match pattern % 4 {
                1 => ones,
                0 => 1u128 << (sig - 1),
                2 => (1u128 << (sig - 1)) | 1,
                _ => (0xAAAA_AAAA_AAAA_AAAA_AAAA_AAAA_AAAA_AAAAu128 & ones) | (1u128 << (sig - 1)),
            };
            let uty = match ALL_UTY.get(operand_ty).copied() {
                Some(t) if t.bits() >= sig => t,
                _ => ALL_UTY.iter().copied().filter(|t| t.bits() >= sig).min_by_key(|t| t.bits()).unwrap(),
            };
            (Expect::Err, guarded(|| match A::from_uint(uty.make(x), false) {
                Ok(v) => Outcome::ReturnedOk(lc(&v)),
                Err(_) => Outcome::ReturnedErr,
            }))
        }
        "try_from_slice" => {
            let count = cap / 8 + grow;
            (Expect::Err, guarded(|| match A::from_uslice(&USlice::U8(vec![0x81; count])) {
                Ok(v) => Outcome::ReturnedOk(lc(&v)),
                Err(_) => Outcome::ReturnedErr,
            }))
        }
        "try_from_vector" => {
            // a longer vector of another implementation
            let len = cap + grow;
            (Expect::Err, guarded(|| match A::try_from_longer(operand_ty, len, pattern) {
                None => panic!("HARNESS-SKIP"),
                Some(Ok((l, c))) => Outcome::ReturnedOk(Some((l, c))),
                Some(Err(_)) => Outcome::ReturnedErr,
            }))
        }
        // absolute, extreme targets (`grow` counts down from usize::MAX): arithmetic on the requested length must not wrap
        "resize_abs" | "sign_extend_abs" => {
            let mut x = av.clone();
            let target = usize::MAX - grow;
            let sx = op == "sign_extend_abs";
            (Expect::Panic, guarded(move || {
                if sx {
                    x.sign_extend(target)
                } else {
                    x.resize(target, fill(pattern, 0))
                }
                Outcome::Returned(lc(&x))
            }))
        }
        "zeros_abs" => (Expect::Panic, guarded(|| Outcome::Returned(lc(&A::zeros(usize::MAX - grow))))),
        "ones_abs" => (Expect::Panic, guarded(|| Outcome::Returned(lc(&A::ones(usize::MAX - grow))))),
        "push" => {
            let mut x = av.clone();
            (Expect::Panic, guarded(move || {
                for i in 0..grow {
                    x.push(fill(pattern, i));
                }
                Outcome::Returned(lc(&x))
            }))
        }
        "resize" | "sign_extend" => {
            let mut x = av.clone();
            let sx = op == "sign_extend";
            (Expect::Panic, guarded(move || {
                if sx {
                    x.sign_extend(n + grow)
                } else {
                    x.resize(n + grow, fill(pattern, 0))
                }
                Outcome::Returned(lc(&x))
            }))
        }
        "append" | "prepend" | "insert" => {
            let mut x = av.clone();
            let op = op.to_string();
            (Expect::Panic, guarded(move || {
                with_type!(operand_ty, B, {
                    if B::FIXED_CAP.map_or(false, |c| grow > c) {
                        panic!("HARNESS-SKIP");
                    }
                    let b: B = build_set(&(0..grow).map(|i| unbit(fill(pattern, i))).collect::<Vec<bool>>());
                    match op.as_str() {
                        "append" => x.append(&b),
                        "prepend" => x.prepend(&b),
                        _ => x.insert(index.min(n), &b),
                    }
                });
                Outcome::Returned(lc(&x))
            }))
        }
        "extend" => {
            let mut x = av.clone();
            (Expect::Panic, guarded(move || {
                x.extend_bits((0..grow).map(|i| fill(pattern, i)));
                Outcome::Returned(lc(&x))
            }))
        }
        "collect" => (Expect::Panic, guarded(|| {
            let x = A::collect_bits((0..cap + grow).map(|i| fill(pattern, i)));
            Outcome::Returned(lc(&x))
        })),
        // ---- index checks (documented to panic; implemented with debug_assert) ----
        "get" => (Expect::PanicDbgOnly, guarded(|| {
            let _ = av.get(n + index);
            Outcome::Returned(lc(&av))
        })),
        "set" => {
            let mut x = av.clone();
            (Expect::PanicDbgOnly, guarded(move || {
                x.set(n + index, Bit::One);
                Outcome::Returned(lc(&x))
            }))
        }
        "copy_range_end" => (Expect::PanicDbgOnly, guarded(|| Outcome::Returned(lc(&av.copy_range(0..n + 1 + index))))),
        "copy_range_start" => (Expect::PanicDbgOnly, guarded(|| Outcome::Returned(lc(&av.copy_range(n + 1 + index..n + 1 + index))))),
        "split_off" => {
            let mut x = av.clone();
            (Expect::PanicDbgOnly, guarded(move || {
                let h = x.split_off(n + 1 + index);
                let _ = h;
                Outcome::Returned(lc(&x))
            }))
        }
        o => panic!("HARNESS-ERROR: unknown C19 op {}", o),
    }
}

fn judge_overflow<A: Subject + AllPairs>(ctx: &mut Ctx, case: &Case, wl: &str) {
    let a = case.spec("a");
    let op = case.get("op");
    let grow = case.usize("grow");
    let oty = case.usize("oty");
    let index = case.usize("index");
    let pattern = case.opt("pat").map_or(1, |p| p.parse().expect("HARNESS-ERROR: pat"));
    let cap = A::FIXED_CAP.unwrap();
    let n = a.bits.len();
    let h = sig_hash(&[A::IDX as u64, 1900, model::hash64(op.as_bytes()), grow as u64, oty as u64, index as u64, pattern as u64, n as u64, model::hash_bits(&a.bits)]);
    let (expect, r) = attempt::<A>(op, &a, grow, oty, index, pattern);
    ctx.bucket(&format!("fill-pattern:{}", pattern % 4));
    if let Err(p) = &r {
        if p.0.starts_with("HARNESS-SKIP") {
            return;
        }
    }
    ctx.eval(h, true);
    ctx.bucket(&format!("op:{}", op));
    if n == cap {
        ctx.bucket("growth-at-len==capacity");
    }
    let dbg = cfg!(debug_assertions);
    let sig = format!("{}|{}", op, if dbg { "dbg" } else { "rel" });
    let cs = || case.enc();
    ctx.sample(wl, cs);
    let over_len = |lc: &Option<(usize, usize)>| lc.map_or(false, |(l, c)| l > c);
    match (expect, r) {
        (Expect::Panic, Err(_)) | (Expect::PanicDbgOnly, Err(_)) => ctx.panics_expected += 1,
        (Expect::Panic, Ok(Outcome::Returned(lc))) => ctx.violation(
            "overflow-not-signalled",
            &sig,
            &cs(),
            format!("{} `{}` past the capacity {} (from len {}, +{}) returned normally in the {} build ; vector now (len, capacity) = {:?}", A::NAME, op, cap, n, grow, ctx.build, lc),
        ),
        (Expect::PanicDbgOnly, Ok(Outcome::Returned(lc))) => {
            if dbg {
                ctx.violation("bad-index-not-signalled", &sig, &cs(), format!("{} `{}` with an out-of-range index (len {}) returned normally in a debug-assertion build", A::NAME, op, n));
            } else {
                ctx.bucket("index-check-not-asserted-in-rel");
                if over_len(&lc) {
                    ctx.violation("len>capacity", &sig, &cs(), format!("after `{}`: (len, capacity) = {:?}", op, lc));
                }
            }
        }
        (Expect::Err, Ok(Outcome::ReturnedErr)) => ctx.panics_expected += 1,
        (Expect::Err, Ok(Outcome::ReturnedOk(lc))) => ctx.violation(
            "overflow-accepted",
            &sig,
            &cs(),
            format!("{} `{}` beyond the capacity {} (+{}) returned Ok ; (len, capacity) = {:?}", A::NAME, op, cap, grow, lc),
        ),
        (Expect::Err, Err(p)) => ctx.violation("overflow-panicked-instead-of-err", &sig, &cs(), format!("{} `{}` beyond capacity panicked instead of returning an error: {}", A::NAME, op, p.short())),
        (e, Ok(_)) => panic!("HARNESS-ERROR: outcome shape mismatch for {:?} {}", e, op),
    }
}

/// Passive invariant: a fixed vector going through *valid* edits never shows len > capacity.
fn judge_within<A: Subject + AllPairs>(ctx: &mut Ctx, case: &Case, wl: &str) {
    let a = case.spec("a");
    let cap = A::FIXED_CAP.unwrap();
    let (mut x, _) = build::<A>(&a);
    let seed = case.usize("seed") as u64;
    let mut rng = Rng::new(seed);
    ctx.sample(wl, || case.enc());
    for step in 0..40 {
        let n = match guarded(|| x.len()) {
            Ok(n) => n,
            Err(_) => return,
        };
        let room = cap - n.min(cap);
        let r = guarded(|| match rng.below(6) {
            0 if room > 0 => x.push(Bit::One),
            1 => {
                x.pop();
            }
            2 => x.resize(rng.below(cap + 1), bit(rng.bool())),
            3 => {
                let k = rng.below(room + 1);
                let b: Bvd = build_set(&vec![true; k]);
                x.append(&b)
            }
            4 => {
                let k = rng.below(room + 1);
                if k > 0 {
                    let b: Bv = build_set(&vec![true; k]);
                    x.prepend(&b)
                }
            }
            _ => x.truncate(rng.below(cap + 1)),
        });
        if r.is_err() {
            return;
        }
        ctx.eval(sig_hash(&[A::IDX as u64, 1901, seed, step as u64]), true);
        if let Some((l, c)) = lc(&x) {
            if l > c {
                ctx.violation("len>capacity", "valid-edits", &case.enc(), format!("{} after valid edits: len {} > capacity {}", A::NAME, l, c));
                return;
            }
        }
    }
    ctx.bucket("valid-edit-walks");
}

pub fn judge(ctx: &mut Ctx, case: &Case, wl: &str) {
    let ty = case.spec("a").ty;
    if TYPE_FIXED_CAP[ty].is_none() {
        panic!("HARNESS-ERROR: C19 case on a non-fixed type");
    }
    with_type!(ty, A, {
        match case.kind.as_str() {
            "overflow" => judge_overflow::<A>(ctx, case, wl),
            "within" => judge_within::<A>(ctx, case, wl),
            k => panic!("HARNESS-ERROR: fixedcap cannot judge case kind {}", k),
        }
    })
}

pub fn replay(ctx: &mut Ctx, case: &Case) {
    judge(ctx, case, "replay")
}

pub fn run(ctx: &mut Ctx) {
    let tier = ctx.tier;
    let mut rng = Rng::derive(ctx.seed, 0x1919, 0);
    let ctor_ops = ["zeros", "ones", "repeat", "from_bytes", "from_binary", "from_hex", "read", "try_from_uint", "try_from_slice", "collect"];
    let grow_ops = ["push", "resize", "sign_extend", "append", "prepend", "insert", "extend"];
    let idx_ops = ["get", "set", "copy_range_end", "copy_range_start", "split_off"];
    for ty in 0..NTYPES {
        let cap = match TYPE_FIXED_CAP[ty] {
            Some(c) => c,
            None => continue,
        };
        let w = TYPE_WORD_BITS[ty];
        if !ctx.mine() {
            continue;
        }
        let empty = Spec::set(ty, vec![]);
        for op in ctor_ops {
            for grow in [1usize, 2, 7, 8, 9, w, w + 1, cap, 1000] {
                for pat in 0..4 {
                    if pat != 1 && op != "collect" && op != "try_from_uint" {
                        continue;
                    }
                    // try_from_uint: every native type (the ones too narrow for the value fall back to the narrowest that fits)
                    let otys: &[usize] = if op == "try_from_uint" { &[0, 1, 2, 3, 4, 5] } else { &[0] };
                    for oty in otys {
                        judge(ctx, &Case::new("overflow").with("a", empty.enc()).with("op", op).with("grow", grow).with("oty", *oty).with("index", 0).with("pat", pat), "W-constructors-beyond-capacity");
                    }
                }
            }
        }
        for op in ["resize_abs", "sign_extend_abs", "zeros_abs", "ones_abs"] {
            for back in [0usize, 1, 2, 6, 7, 8, 14, 15, 16, 30, 31, 32, 62, 63, 64, 65, 126, 127, 128, 129, usize::MAX / 2, usize::MAX - (1 << 40)] {
                for (n0, pat) in [(0usize, 0usize), (1, 1), (cap, 1), (cap / 2, 0)] {
                    let a = Spec::set(ty, vec![true; n0]);
                    judge(ctx, &Case::new("overflow").with("a", a.enc()).with("op", op).with("grow", back).with("oty", 0).with("index", 0).with("pat", pat), "W4-extreme-lengths");
                }
            }
        }
        for oty in 0..NTYPES {
            for grow in [1usize, 2, 8, 64, 65] {
                // pattern 0: all zeros, 1: all ones, 2: only bit 0 set, 3: only the top bit set
                for pat in 0..4 {
                    judge(ctx, &Case::new("overflow").with("a", empty.enc()).with("op", "try_from_vector").with("grow", grow).with("oty", oty).with("index", 0).with("pat", pat), "W-conversions-beyond-capacity");
                }
            }
        }
        // growth from len in {cap-2 .. cap} (and a few lower lengths) by {1, 2, W, cap}
        let mut lens = vec![cap, cap - 1, cap.saturating_sub(2), cap / 2, 0];
        lens.extend(gen::boundary_lens(w, 8, Some(cap), cap).into_iter().filter(|_| tier != crate::report::Tier::Tiny));
        lens.sort();
        lens.dedup();
        for n in lens {
            for rep in 0..tier.pick(1, 8, 40) {
                let bits = if rep == 0 { vec![true; n] } else { gen::random_bits(n, &mut rng) };
                let a = Spec::set(ty, bits);
                let room = cap - n;
                for op in grow_ops {
                    for extra in [1usize, 2, w, cap] {
                        let grow = room + extra;
                        let otys: Vec<usize> = if matches!(op, "append" | "prepend" | "insert") { vec![ty, IDX_BVD, IDX_BV, (ty + 5) % 14] } else { vec![0] };
                        for oty in otys {
                            for index in [0usize, n / 2, n] {
                                if op != "insert" && index != 0 {
                                    continue;
                                }
                                for pat in 0..4 {
                                    judge(ctx, &Case::new("overflow").with("a", a.enc()).with("op", op).with("grow", grow).with("oty", oty).with("index", index).with("pat", pat), "W-growth-past-capacity");
                                }
                            }
                        }
                    }
                }
                for op in idx_ops {
                    for index in [0usize, 1, w, cap, 1 << 20] {
                        judge(ctx, &Case::new("overflow").with("a", a.enc()).with("op", op).with("grow", 0).with("oty", 0).with("index", index), "W-out-of-range-indices");
                    }
                }
            }
        }
        for rep in 0..tier.pick(2, 30_000, 200_000) {
            let n = rng.below(cap + 1);
            let a = Spec::set(ty, gen::random_bits(n, &mut rng));
            judge(ctx, &Case::new("within").with("a", a.enc()).with("seed", ctx.seed * 7919 + rep as u64 * 31 + ty as u64), "W-valid-edit-walks");
        }
    }
    let _ = hex_enc(&[]);
}

pub const REQUIRED_C19: &[&str] = &[
    "op:zeros", "op:ones", "op:from_bytes", "op:from_binary", "op:from_hex", "op:read", "op:try_from_uint", "op:try_from_slice",
    "op:try_from_vector", "op:push", "op:resize", "op:append", "op:prepend", "op:insert", "op:extend", "op:collect",
    "op:get", "op:set", "op:copy_range_end", "op:split_off", "growth-at-len==capacity", "valid-edit-walks",
    "fill-pattern:0", "fill-pattern:1", "fill-pattern:2", "fill-pattern:3", "op:resize_abs", "op:sign_extend_abs", "op:zeros_abs",
];
