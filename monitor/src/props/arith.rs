//! C01 (add/sub/mul), C02 (div/rem), C04 (and/or/xor/not), C20 (operator forms agree, operands
//! unchanged): result-conformance monitors over the operator matrix.

use crate::case::Case;
use crate::exec::guarded;
use crate::gen;
use crate::judge::*;
use crate::model::{self, Bits, Op};
use crate::report::{Ctx, Tier};
use crate::rng::Rng;
use crate::spec::{build, snap, Spec, Via, VIAS_BASIC};
use crate::types::*;
use crate::with_type;

fn ops_of(prop: &str) -> &'static [Op] {
    match prop {
        "C01" => &[Op::Add, Op::Sub, Op::Mul],
        "C02" => &[Op::Div, Op::Rem],
        "C04" => &[Op::And, Op::Or, Op::Xor],
        _ => &model::ALL_OPS,
    }
}

fn nontrivial(a: &[bool], b: &[bool]) -> bool {
    !a.is_empty() && !(model::is_zero(a) && model::is_zero(b))
}

fn bits_sig(a: &Spec, b: &Spec, op: Op, form: Form) -> u64 {
    sig_hash(&[
        a.ty as u64,
        b.ty as u64,
        op as u64,
        form as u64,
        a.bits.len() as u64,
        b.bits.len() as u64,
        model::hash_bits(&a.bits),
        model::hash_bits(&b.bits),
        model::hash64(a.via.enc().as_bytes()),
        model::hash64(b.via.enc().as_bytes()),
    ])
}

fn binop_case(a: &Spec, b: &Spec, op: Op, form: Option<Form>) -> Case {
    Case::new("binop")
        .with("a", a.enc())
        .with("b", b.enc())
        .with("op", op.name())
        .with("form", form.map_or("all", |f| f.name()))
}

fn carry_buckets(ctx: &mut Ctx, a: &Spec, b: &Spec, op: Op) {
    let n = a.bits.len();
    let m = b.bits.len();
    let w = TYPE_WORD_BITS[a.ty];
    let cap = TYPE_FIXED_CAP[a.ty];
    ctx.bucket(&format!("rel:{}", len_rel(n, m, cap)));
    if n == 0 {
        ctx.bucket("n=0");
    }
    if m == 0 {
        ctx.bucket("m=0");
    }
    if matches!(a.via, Via::Spare(_) | Via::HeapShort) && TYPE_FIXED_CAP[a.ty].is_none() {
        ctx.bucket("lhs-spare-capacity-or-heap-short");
    }
    if n > w {
        // a full low word of ones plus a carry-in from b's bit 0, or a borrow from a zero low word
        let low_ones = a.bits[..w].iter().all(|x| *x);
        let low_zero = a.bits[..w].iter().all(|x| !*x);
        if op == Op::Add && low_ones && b.bits.first().copied().unwrap_or(false) {
            ctx.bucket("carry-ripples-through-full-word");
        }
        if op == Op::Sub && low_zero && b.bits.first().copied().unwrap_or(false) {
            ctx.bucket("borrow-through-zero-word");
        }
    }
    if matches!(op, Op::And | Op::Or | Op::Xor) && m > n && b.bits[n..].iter().any(|x| *x) {
        ctx.bucket(&format!("rhs-high-bits-beyond-n:{}:{}", type_class(a.ty), op.name()));
    }
    if TYPE_WORD_BITS[a.ty] != TYPE_WORD_BITS[b.ty] {
        ctx.bucket("different-word-sizes");
    }
}

/// Judge one `binop` case for C01 / C02 / C04: every requested form against the model.
fn judge_binop<A: Subject + AllPairs>(ctx: &mut Ctx, case: &Case, wl: &str) {
    let a = case.spec("a");
    let b = case.spec("b");
    let op = case.op("op");
    let forms: Vec<Form> = match case.get("form") {
        "all" => ALL_FORMS.to_vec(),
        f => vec![Form::parse(f).expect("HARNESS-ERROR: form")],
    };
    let expected = model::binop(op, &a.bits, &b.bits);
    let run = run_bin::<A>(&a, &b, op, &forms, false);
    if run.fellback {
        ctx.bucket("operand-path-fell-back-to-set");
    }
    ctx.type_pairs.insert((a.ty as u8, b.ty as u8));
    carry_buckets(ctx, &a, &b, op);
    let rel = len_rel(a.bits.len(), b.bits.len(), TYPE_FIXED_CAP[a.ty]);
    // C04's own hidden-state clause ("no bit of b at an index >= n influences the result or any later observation of
    // it"): the same operation with b cut down to n bits must give a result that NO observer or later operation can
    // tell from this one. Both results come from the same `a` through the same code, so nothing but b's high bits can
    // make them differ.
    let cut: Option<BinRun<A>> = if ctx.prop == "C04" && b.bits.len() > a.bits.len() && b.bits[a.bits.len()..].iter().any(|x| *x) {
        let mut bt = b.clone();
        bt.bits.truncate(a.bits.len());
        bt.via = crate::spec::Via::Set;
        Some(run_bin::<A>(&a, &bt, op, &forms, false))
    } else {
        None
    };
    for (fi, (form, r)) in run.results.into_iter().enumerate() {
        let s = bits_sig(&a, &b, op, form);
        ctx.eval(s, nontrivial(&a.bits, &b.bits));
        if let (Some(c), Ok(res), Some(e)) = (&cut, &r, &expected) {
            if let Some((_, Ok(res_cut))) = c.results.get(fi) {
                ctx.bucket("high-bits-metamorphic");
                let fails = crate::battery::battery_scoped(ctx, res, e, s % 7 == 0, None, Some(res_cut));
                if let Some(f) = fails.first() {
                    ctx.violation(
                        &format!("{}:high-bits-of-b-observable", op.name()),
                        &format!("{}|{}|rhs={}", type_class(a.ty), op.name(), type_class(b.ty)),
                        &binop_case(&a, &b, op, Some(form)).enc(),
                        format!(
                            "{} {} {} (form {}): the result is distinguishable from the result of the same operation with b cut to {} bits: {} : {}",
                            a.describe(), op.name(), b.describe(), form.name(), a.bits.len(), f.item, f.detail.replace("fresh twin", "result with b cut")
                        ),
                    );
                }
            }
        }
        let sig = format!("{}|{}|rhs={}|{}", type_class(a.ty), op.name(), type_class(b.ty), rel);
        let cs = || binop_case(&a, &b, op, Some(form)).enc();
        ctx.sample(wl, cs);
        match (&expected, r) {
            (Some(e), Ok(res)) => {
                let full = s % 61 == 0;
                check_result::<A>(ctx, op.name(), &sig, &cs(), &res, e, full);
            }
            (Some(_), Err(p)) => {
                ctx.violation(
                    &format!("{}:unexpected-panic", op.name()),
                    &sig,
                    &cs(),
                    format!(
                        "{} {} {} (form {}) panicked: {}",
                        a.describe(),
                        op.name(),
                        b.describe(),
                        form.name(),
                        p.short()
                    ),
                );
            }
            (None, Ok(res)) => {
                ctx.violation(
                    &format!("{}:zero-divisor-returned", op.name()),
                    &format!("{}|{}|rhs={}", type_class(a.ty), op.name(), type_class(b.ty)),
                    &cs(),
                    format!(
                        "{} {} {} (form {}) returned (len {}) instead of panicking",
                        a.describe(),
                        op.name(),
                        b.describe(),
                        form.name(),
                        res.len()
                    ),
                );
            }
            (None, Err(_)) => {
                ctx.panics_expected += 1;
                ctx.bucket(&format!("zero-divisor-panicked:{}", if b.bits.is_empty() { "empty" } else { "zeros" }));
            }
        }
    }
}

fn uint_case(a: &Spec, x: UInt, op: Op, form: Form) -> Case {
    Case::new("binuint")
        .with("a", a.enc())
        .with("x", x.enc())
        .with("op", op.name())
        .with("form", form.name())
}

fn judge_binuint<A: Subject + AllPairs>(ctx: &mut Ctx, case: &Case, wl: &str) {
    let a = case.spec("a");
    let x = case.uint("x");
    let op = case.op("op");
    let form = case.form("form");
    let expected = expect_uint(op, &a.bits, x);
    let (av, _) = build::<A>(&a);
    let r = guarded(|| A::bin_uint(&av, op, form, x));
    let s = sig_hash(&[
        a.ty as u64,
        100 + x.ty() as u64,
        op as u64,
        form as u64,
        a.bits.len() as u64,
        model::hash_bits(&a.bits),
        x.val() as u64,
        (x.val() >> 64) as u64,
    ]);
    ctx.eval(s, !a.bits.is_empty() && !(model::is_zero(&a.bits) && x.val() == 0));
    ctx.bucket(&format!("uint-rhs:{}", x.ty().name()));
    let n = a.bits.len();
    if x.ty().bits() > TYPE_FIXED_CAP[a.ty].unwrap_or(usize::MAX) {
        ctx.bucket("uint-wider-than-lhs-capacity");
    }
    if n < 128 && x.val() >> n != 0 {
        ctx.bucket("uint-value>=2^n");
    }
    let sig = format!("{}|{}|rhs={}", type_class(a.ty), op.name(), x.ty().name());
    let cs = || uint_case(&a, x, op, form).enc();
    ctx.sample(wl, cs);
    // C04's hidden-state clause for a native right-hand side: the same operation with the integer's bits at and
    // beyond n cleared must give a result no observer or later operation can tell from this one (both results come
    // from the same `a` through the same code path).
    if ctx.prop == "C04" && matches!(op, Op::And | Op::Or | Op::Xor) && n < 128 && x.val() >> n != 0 {
        if let (Some(e), Ok(res)) = (&expected, &r) {
            let xc = x.ty().make(x.val() & model::mask128(n));
            if let Ok(res_cut) = guarded(|| A::bin_uint(&av, op, form, xc)) {
                ctx.bucket("high-bits-metamorphic:uint");
                let fails = crate::battery::battery_scoped(ctx, res, e, s % 7 == 0, None, Some(&res_cut));
                if let Some(f) = fails.first() {
                    ctx.violation(
                        &format!("{}:high-bits-of-b-observable", op.name()),
                        &sig,
                        &cs(),
                        format!(
                            "{} {} {} (form {}): the result is distinguishable from the result of the same operation with the integer cut to {} bits: {} : {}",
                            a.describe(), op.name(), x.enc(), form.name(), n, f.item, f.detail.replace("fresh twin", "result with b cut")
                        ),
                    );
                }
            }
        }
    }
    match (&expected, r) {
        (Some(e), Ok(res)) => {
            check_result::<A>(ctx, op.name(), &sig, &cs(), &res, e, s % 61 == 0);
        }
        (Some(_), Err(p)) => ctx.violation(
            &format!("{}:unexpected-panic", op.name()),
            &sig,
            &cs(),
            format!("{} {} {} (form {}) panicked: {}", a.describe(), op.name(), x.enc(), form.name(), p.short()),
        ),
        (None, Ok(res)) => ctx.violation(
            &format!("{}:zero-divisor-returned", op.name()),
            &sig,
            &cs(),
            format!("{} {} {} returned (len {}) instead of panicking", a.describe(), op.name(), x.enc(), res.len()),
        ),
        (None, Err(_)) => {
            ctx.panics_expected += 1;
            ctx.bucket("zero-divisor-panicked:uint");
        }
    }
}

fn not_case(a: &Spec, by_ref: bool) -> Case {
    Case::new("not").with("a", a.enc()).with("ref", by_ref as u8)
}

fn judge_not<A: Subject + AllPairs>(ctx: &mut Ctx, case: &Case, wl: &str) {
    let a = case.spec("a");
    let by_ref = case.flag("ref");
    let (av, _) = build::<A>(&a);
    let before = snap(&av);
    let r = guarded(|| if by_ref { av.not_r() } else { av.clone().not_v() });
    let s = sig_hash(&[a.ty as u64, 999, by_ref as u64, a.bits.len() as u64, model::hash_bits(&a.bits), model::hash64(a.via.enc().as_bytes())]);
    ctx.eval(s, !a.bits.is_empty());
    ctx.bucket(if by_ref { "not:by-ref" } else { "not:owned" });
    let sig = format!("{}|not", type_class(a.ty));
    let cs = || not_case(&a, by_ref).enc();
    ctx.sample(wl, cs);
    match r {
        Ok(res) => {
            check_result::<A>(ctx, "not", &sig, &cs(), &res, &model::not(&a.bits), s % 17 == 0);
        }
        Err(p) => ctx.violation("not:unexpected-panic", &sig, &cs(), format!("!{} panicked: {}", a.describe(), p.short())),
    }
    if by_ref {
        if let (Ok(b), Ok(af)) = (&before, &snap(&av)) {
            if b != af {
                ctx.violation("not:operand-changed", &sig, &cs(), format!("!&a modified a: {:?} -> {:?}", b, af));
            }
        }
    }
}

fn divrem_case(a: &Spec, b: &Spec) -> Case {
    Case::new("divrem").with("a", a.enc()).with("b", b.enc())
}

fn judge_divrem_pair<A: Subject + AllPairs + Pair<B>, B: Subject>(ctx: &mut Ctx, a: &Spec, b: &Spec, wl: &str) {
    let (av, _) = build::<A>(a);
    let (bv, _) = build::<B>(b);
    let r = guarded(|| <A as Pair<B>>::div_rem_x(&av, &bv));
    let eq = model::binop(Op::Div, &a.bits, &b.bits);
    let er = model::binop(Op::Rem, &a.bits, &b.bits);
    let s = bits_sig(a, b, Op::Div, Form::RR) ^ 0x7777;
    ctx.eval(s, nontrivial(&a.bits, &b.bits));
    ctx.type_pairs.insert((a.ty as u8, b.ty as u8));
    let rel = len_rel(a.bits.len(), b.bits.len(), TYPE_FIXED_CAP[a.ty]);
    ctx.bucket(&format!("rel:{}", rel));
    let sig = format!("{}|div_rem|rhs={}|{}", type_class(a.ty), type_class(b.ty), rel);
    let cs = || divrem_case(a, b).enc();
    ctx.sample(wl, cs);
    match (eq, er, r) {
        (Some(q), Some(rm), Ok((qv, rv))) => {
            let full = s % 61 == 0;
            check_result::<A>(ctx, "div_rem.q", &sig, &cs(), &qv, &q, full);
            check_result::<A>(ctx, "div_rem.r", &sig, &cs(), &rv, &rm, full);
        }
        (Some(_), Some(_), Err(p)) => ctx.violation(
            "div_rem:unexpected-panic",
            &sig,
            &cs(),
            format!("{}.div_rem({}) panicked: {}", a.describe(), b.describe(), p.short()),
        ),
        (None, _, Ok(_)) | (_, None, Ok(_)) => ctx.violation(
            "div_rem:zero-divisor-returned",
            &sig,
            &cs(),
            format!("{}.div_rem({}) returned instead of panicking", a.describe(), b.describe()),
        ),
        _ => {
            ctx.panics_expected += 1;
            ctx.bucket("zero-divisor-panicked:div_rem");
        }
    }
}

fn judge_divrem<A: Subject + AllPairs>(ctx: &mut Ctx, case: &Case, wl: &str) {
    let a = case.spec("a");
    let b = case.spec("b");
    with_type!(b.ty, B, { judge_divrem_pair::<A, B>(ctx, &a, &b, wl) })
}

// -------------------------------------------------------------------------------------------------
// C20: forms agreement and operand immutability
// -------------------------------------------------------------------------------------------------

fn judge_forms<A: Subject + AllPairs>(ctx: &mut Ctx, case: &Case, wl: &str) {
    let a = case.spec("a");
    let b = case.spec("b");
    let op = case.op("op");
    let run = run_bin::<A>(&a, &b, op, &ALL_FORMS, true);
    ctx.type_pairs.insert((a.ty as u8, b.ty as u8));
    let s = bits_sig(&a, &b, op, Form::VV) ^ 0x2020;
    ctx.eval(s, nontrivial(&a.bits, &b.bits));
    ctx.bucket(&format!("forms:{}", op.name()));
    let sig = format!("{}|{}|rhs={}", type_class(a.ty), op.name(), type_class(b.ty));
    let cs = || Case::new("forms").with("a", a.enc()).with("b", b.enc()).with("op", op.name()).enc();
    ctx.sample(wl, cs);
    // reduce every form's outcome to (len, bits) or "panic"
    let outs: Vec<(Form, Option<(usize, Bits)>)> = run
        .results
        .iter()
        .map(|(f, r)| {
            (*f, match r {
                Ok(v) => guarded(|| (v.len(), crate::spec::read_bits(v))).ok(),
                Err(_) => None,
            })
        })
        .collect();
    for w in outs.windows(2) {
        if w[0].1 != w[1].1 {
            ctx.violation(
                "forms-disagree",
                &sig,
                &cs(),
                format!(
                    "{} {} {}: form {} gave {:?} but form {} gave {:?} (None = panic)",
                    a.describe(),
                    op.name(),
                    b.describe(),
                    w[0].0.name(),
                    w[0].1.as_ref().map(|x| (x.0, model::to_str(&x.1))),
                    w[1].0.name(),
                    w[1].1.as_ref().map(|x| (x.0, model::to_str(&x.1)))
                ),
            );
            break;
        }
    }
    if outs.iter().all(|o| o.1.is_none()) {
        ctx.bucket("forms:all-panicked");
    }
    // "identical result": the vectors returned by the different forms of the same operation must also be
    // indistinguishable from one another through the pure observers (a form that leaves junk beyond len or in spare
    // words differs from one that does not). Metamorphic: same operation, same operands, only the form differs.
    let oks: Vec<(Form, &A)> = run.results.iter().filter_map(|(f, r)| r.as_ref().ok().map(|v| (*f, v))).collect();
    if oks.len() > 1 {
        let (f0, r0) = oks[0];
        if let Ok(b0) = guarded(|| crate::battery::basic(r0)) {
            for (f, r) in &oks[1..] {
                let same = guarded(|| (crate::battery::basic(*r) == b0, *r == r0, r0 == *r, crate::battery::hash_stream(*r) == crate::battery::hash_stream(r0)));
                ctx.observer_calls += 8;
                match same {
                    Ok((true, true, true, true)) => {}
                    Ok(t) => {
                        ctx.violation(
                            "forms-results-distinguishable",
                            &sig,
                            &cs(),
                            format!(
                                "{} {} {}: the results of forms {} and {} have the same visible bits but are distinguishable (observers equal, ==, reversed ==, hash stream) = {:?}",
                                a.describe(), op.name(), b.describe(), f0.name(), f.name(), t
                            ),
                        );
                        break;
                    }
                    Err(_) => {}
                }
            }
        }
    }
    if let Some(d) = run.a_changed {
        ctx.violation("operand-changed:lhs", &sig, &cs(), format!("left operand of {} changed: {}", op.name(), d));
    }
    if let Some(d) = run.b_changed {
        ctx.violation("operand-changed:rhs", &sig, &cs(), format!("right operand of {} changed: {}", op.name(), d));
    }
}

/// uint form vs the same operation with a vector built from the integer.
fn judge_forms_uint<A: Subject + AllPairs>(ctx: &mut Ctx, case: &Case, wl: &str) {
    let a = case.spec("a");
    let x = case.uint("x");
    let op = case.op("op");
    let (av, _) = build::<A>(&a);
    let before = snap(&av);
    let red = |r: Result<A, crate::exec::PanicInfo>| -> Option<(usize, Bits)> {
        match r {
            Ok(v) => guarded(|| (v.len(), crate::spec::read_bits(&v))).ok(),
            Err(_) => None,
        }
    };
    let mut outs: Vec<(String, Option<(usize, Bits)>)> = vec![];
    for f in ALL_FORMS {
        outs.push((format!("x:{}", f.name()), red(guarded(|| A::bin_uint(&av, op, f, x)))));
    }
    // vectors built from x (the builders the operator impls use, plus the LHS's own type)
    if let Ok(bd) = guarded(|| Bvd::from_uint(x, false)) {
        if let Ok(bd) = bd {
            outs.push(("Bvd::from(x)".into(), red(guarded(|| <A as Pair<Bvd>>::bin(&av, op, Form::RR, &bd)))));
        }
    }
    if let Ok(Ok(ba)) = guarded(|| Bv::from_uint(x, true)) {
        outs.push(("Bv::from(&x)".into(), red(guarded(|| <A as Pair<Bv>>::bin(&av, op, Form::AR, &ba)))));
    }
    if let Ok(Ok(bf)) = guarded(|| T8::from_uint(x, false)) {
        outs.push(("Bvf<u64,2>::try_from(x)".into(), red(guarded(|| <A as Pair<T8>>::bin(&av, op, Form::VV, &bf)))));
    }
    if let Ok(Ok(bs)) = guarded(|| A::from_uint(x, false)) {
        outs.push((format!("{}::try_from(x)", A::NAME), red(guarded(|| <A as Pair<A>>::bin(&av, op, Form::RV, &bs)))));
    }
    let s = sig_hash(&[a.ty as u64, 2020, x.ty() as u64, op as u64, a.bits.len() as u64, model::hash_bits(&a.bits), x.val() as u64, (x.val() >> 64) as u64]);
    ctx.eval(s, !a.bits.is_empty());
    ctx.bucket(&format!("forms-uint:{}", x.ty().name()));
    let sig = format!("{}|{}|rhs={}", type_class(a.ty), op.name(), x.ty().name());
    let cs = || Case::new("formsuint").with("a", a.enc()).with("x", x.enc()).with("op", op.name()).enc();
    ctx.sample(wl, cs);
    for w in outs.windows(2) {
        if w[0].1 != w[1].1 {
            ctx.violation(
                "uint-forms-disagree",
                &sig,
                &cs(),
                format!(
                    "{} {} {}: `{}` gave {:?} but `{}` gave {:?} (None = panic)",
                    a.describe(),
                    op.name(),
                    x.enc(),
                    w[0].0,
                    w[0].1.as_ref().map(|x| (x.0, model::to_str(&x.1))),
                    w[1].0,
                    w[1].1.as_ref().map(|x| (x.0, model::to_str(&x.1)))
                ),
            );
            break;
        }
    }
    if let (Ok(b), Ok(af)) = (&before, &snap(&av)) {
        if b != af {
            ctx.violation("operand-changed:lhs", &sig, &cs(), format!("left operand changed: {:?} -> {:?}", b, af));
        }
    }
}

fn judge_forms_shift<A: Subject + AllPairs>(ctx: &mut Ctx, case: &Case, wl: &str) {
    let a = case.spec("a");
    let k = case.uint("k");
    let left = case.flag("left");
    let (av, _) = build::<A>(&a);
    let before = snap(&av);
    let mut outs = vec![];
    let mut kept: Vec<(Form, A)> = vec![];
    for f in ALL_FORMS {
        let r = guarded(|| A::shift(&av, left, f, k));
        outs.push((f, match &r {
            Ok(v) => guarded(|| (v.len(), crate::spec::read_bits(v))).ok(),
            Err(_) => None,
        }));
        if let Ok(v) = r {
            kept.push((f, v));
        }
    }
    let s = sig_hash(&[a.ty as u64, 2021, k.ty() as u64, left as u64, a.bits.len() as u64, model::hash_bits(&a.bits), k.val() as u64, (k.val() >> 64) as u64]);
    ctx.eval(s, !a.bits.is_empty() && k.val() > 0);
    ctx.bucket(if left { "forms:shl" } else { "forms:shr" });
    let sig = format!("{}|{}|k={}", type_class(a.ty), if left { "shl" } else { "shr" }, k.ty().name());
    let cs = || Case::new("formsshift").with("a", a.enc()).with("k", k.enc()).with("left", left as u8).enc();
    ctx.sample(wl, cs);
    for w in outs.windows(2) {
        if w[0].1 != w[1].1 {
            ctx.violation(
                "shift-forms-disagree",
                &sig,
                &cs(),
                format!(
                    "{} {} {}: form {} gave {:?} but form {} gave {:?}",
                    a.describe(),
                    if left { "<<" } else { ">>" },
                    k.enc(),
                    w[0].0.name(),
                    w[0].1.as_ref().map(|x| (x.0, model::to_str(&x.1))),
                    w[1].0.name(),
                    w[1].1.as_ref().map(|x| (x.0, model::to_str(&x.1)))
                ),
            );
            break;
        }
    }
    if kept.len() > 1 {
        let (f0, r0) = (&kept[0].0, &kept[0].1);
        if let Ok(b0) = guarded(|| crate::battery::basic(r0)) {
            for (f, r) in &kept[1..] {
                let same = guarded(|| (crate::battery::basic(r) == b0, r == r0, r0 == r, crate::battery::hash_stream(r) == crate::battery::hash_stream(r0)));
                ctx.observer_calls += 8;
                if let Ok(t) = same {
                    if t != (true, true, true, true) {
                        ctx.violation(
                            "shift-forms-results-distinguishable",
                            &sig,
                            &cs(),
                            format!("{} {} {}: the results of forms {} and {} have the same visible bits but are distinguishable (observers equal, ==, reversed ==, hash stream) = {:?}",
                                a.describe(), if left { "<<" } else { ">>" }, k.enc(), f0.name(), f.name(), t),
                        );
                        break;
                    }
                }
            }
        }
    }
    if let (Ok(b), Ok(af)) = (&before, &snap(&av)) {
        if b != af {
            ctx.violation("operand-changed:lhs", &sig, &cs(), format!("shift operand changed: {:?} -> {:?}", b, af));
        }
    }
}

// -------------------------------------------------------------------------------------------------
// dispatch
// -------------------------------------------------------------------------------------------------

pub fn judge(ctx: &mut Ctx, case: &Case, wl: &str) {
    #[cfg(feature = "hooks")]
    if case.kind == "prim" {
        return crate::props::prim::judge(ctx, case, wl);
    }
    let ty = case.spec("a").ty;
    with_type!(ty, A, {
        match case.kind.as_str() {
            "binop" => judge_binop::<A>(ctx, case, wl),
            "binuint" => judge_binuint::<A>(ctx, case, wl),
            "not" => judge_not::<A>(ctx, case, wl),
            "divrem" => judge_divrem::<A>(ctx, case, wl),
            "forms" => judge_forms::<A>(ctx, case, wl),
            "formsuint" => judge_forms_uint::<A>(ctx, case, wl),
            "formsshift" => judge_forms_shift::<A>(ctx, case, wl),
            k => panic!("HARNESS-ERROR: arith cannot judge case kind {}", k),
        }
    })
}

pub fn replay(ctx: &mut Ctx, case: &Case) {
    judge(ctx, case, "replay")
}

// -------------------------------------------------------------------------------------------------
// workloads
// -------------------------------------------------------------------------------------------------

fn via_for(ty: usize, rng: &mut Rng) -> Via {
    let v = *rng.pick(&VIAS_BASIC);
    match v {
        Via::Spare(_) => {
            if TYPE_FIXED_CAP[ty].is_some() {
                Via::Set
            } else {
                Via::Spare(*rng.pick(&[1usize, 63, 64, 65, 130, 200]))
            }
        }
        v => v,
    }
}

fn emit(ctx: &mut Ctx, kind: &str, a: &Spec, b: &Spec, op: Op, form: Option<Form>, wl: &str) {
    let c = if kind == "forms" {
        Case::new("forms").with("a", a.enc()).with("b", b.enc()).with("op", op.name())
    } else if kind == "divrem" {
        divrem_case(a, b)
    } else {
        binop_case(a, b, op, form)
    };
    judge(ctx, &c, wl);
}

/// W1: every (n, m) <= maxn with every value pair, for every ordered type pair.
fn w1_small(ctx: &mut Ctx, kind: &str, ops: &[Op], maxn: usize, divrem_too: bool) {
    let mut idx = 0usize;
    for ta in 0..NTYPES {
        for tb in 0..NTYPES {
            for n in 0..=maxn {
                for m in 0..=maxn {
                    if !ctx.mine() {
                        continue;
                    }
                    for va in gen::all_values(n) {
                        for vb in gen::all_values(m) {
                            let a = Spec::set(ta, va.clone());
                            let b = Spec::set(tb, vb);
                            for op in ops {
                                idx += 1;
                                let form = ALL_FORMS[idx % 6];
                                emit(ctx, kind, &a, &b, *op, Some(form), "W1-small-exhaustive");
                            }
                            if divrem_too {
                                emit(ctx, "divrem", &a, &b, Op::Div, None, "W1-small-exhaustive");
                            }
                        }
                    }
                }
            }
        }
    }
}

/// W1b: all values at lengths crossing the 8-bit word boundary, LHS types with 8-bit words.
fn w1_word_crossing(ctx: &mut Ctx, kind: &str, ops: &[Op], tier: Tier) {
    let combos: Vec<(usize, usize, usize, usize)> = match tier {
        Tier::Tiny => vec![],
        Tier::Quick => vec![(1, 1, 9, 8), (1, IDX_BVD, 9, 7), (2, 3, 9, 8)],
        Tier::Thorough => {
            let mut v = vec![];
            for (ta, tb) in [(1usize, 1usize), (1, 3), (1, IDX_BVD), (2, 1), (2, 3), (2, IDX_BV), (1, 5)] {
                for n in [8usize, 9] {
                    for m in [7usize, 8, 9] {
                        v.push((ta, tb, n, m));
                    }
                }
            }
            v
        }
    };
    let mut idx = 0usize;
    for (ta, tb, n, m) in combos {
        for va in gen::all_values(n) {
            if !ctx.mine() {
                continue;
            }
            for vb in gen::all_values(m) {
                let a = Spec::set(ta, va.clone());
                let b = Spec::set(tb, vb);
                for op in ops {
                    idx += 1;
                    emit(ctx, kind, &a, &b, *op, Some(ALL_FORMS[idx % 6]), "W1b-8bit-word-crossing-exhaustive");
                }
            }
        }
    }
}

/// W2: word-boundary corner lattice for every ordered pair.
fn w2_lattice(ctx: &mut Ctx, kind: &str, ops: &[Op], tier: Tier, all_forms: bool) {
    let keep = tier.pick(64, 10, 1); // keep 1 in `keep` (seeded)
    let mut rng = Rng::derive(ctx.seed, 0x2222, 0);
    let mut idx = 0usize;
    for ta in 0..NTYPES {
        for tb in 0..NTYPES {
            let wa = TYPE_WORD_BITS[ta];
            let wb = TYPE_WORD_BITS[tb];
            let lens_a = gen::boundary_lens(wa, wb, TYPE_FIXED_CAP[ta], gen::dyn_max(tier));
            let lens_b = gen::boundary_lens(wb, wa, TYPE_FIXED_CAP[tb], gen::dyn_max(tier));
            for n in &lens_a {
                let vals_a = gen::lattice(*n, wa, &mut rng);
                for m in &lens_b {
                    let mine = ctx.mine();
                    let vals_b = gen::lattice_small(*m, wa, &mut rng);
                    if !mine {
                        continue;
                    }
                    for va in &vals_a {
                        for vb in &vals_b {
                            if rng.below(keep) != 0 {
                                continue;
                            }
                            let via_a = via_for(ta, &mut rng);
                            let via_b = via_for(tb, &mut rng);
                            let a = Spec::new(ta, va.clone(), via_a);
                            let b = Spec::new(tb, vb.clone(), via_b);
                            for op in ops {
                                idx += 1;
                                let form = if all_forms { None } else { Some(ALL_FORMS[idx % 6]) };
                                emit(ctx, kind, &a, &b, *op, form, "W2-word-boundary-lattice");
                            }
                        }
                    }
                }
            }
        }
    }
}

/// W3: seeded random operands with random production paths and length relations.
fn w3_random(ctx: &mut Ctx, kind: &str, ops: &[Op], count: usize) {
    let per = count / ctx.nworkers + 1;
    let mut rng = Rng::derive(ctx.seed, 0x3333, ctx.worker as u64);
    let tier = ctx.tier;
    for i in 0..per {
        let ta = rng.below(NTYPES);
        let tb = rng.below(NTYPES);
        let n = gen::random_len(ta, gen::dyn_max(tier), &mut rng);
        let m = match rng.below(4) {
            0 => n.min(TYPE_FIXED_CAP[tb].unwrap_or(usize::MAX)),
            _ => gen::random_len(tb, gen::dyn_max(tier), &mut rng),
        };
        let a = Spec::new(ta, gen::random_bits(n, &mut rng), via_for(ta, &mut rng));
        let mut vb = gen::random_bits(m, &mut rng);
        if matches!(ops[0], Op::Div | Op::Rem) && rng.chance(1, 2) {
            // small divisors in long vectors
            for (j, x) in vb.iter_mut().enumerate() {
                if j >= 6 {
                    *x = false;
                }
            }
        }
        let b = Spec::new(tb, vb, via_for(tb, &mut rng));
        let op = ops[i % ops.len()];
        let form = if kind == "forms" { None } else { Some(ALL_FORMS[rng.below(6)]) };
        emit(ctx, kind, &a, &b, op, form, "W3-seeded-random");
    }
}

fn uint_values(ty: UTy, n: usize, rng: &mut Rng) -> Vec<u128> {
    let max = ty.max();
    let mut v = vec![0u128, 1, 2, 3, 10, max, max - 1, 1u128 << (ty.bits() - 1), (1u128 << (ty.bits() - 1)) - 1, rng.u128() & max];
    if n < ty.bits() {
        v.push(1u128 << n);
        v.push((1u128 << n) | 1);
        if n > 0 {
            v.push((1u128 << n) - 1);
        }
    }
    v.sort();
    v.dedup();
    v
}

/// uint right-hand sides of all six native types.
fn w_uint(ctx: &mut Ctx, kind: &str, ops: &[Op], tier: Tier) {
    let mut rng = Rng::derive(ctx.seed, 0x4444, 0);
    let mut idx = 0usize;
    for ta in 0..NTYPES {
        let wa = TYPE_WORD_BITS[ta];
        let lens = gen::boundary_lens(wa, 8, TYPE_FIXED_CAP[ta], tier.pick(70, 140, 200));
        for n in lens {
            let vals = gen::lattice_small(n, wa, &mut rng);
            for uty in ALL_UTY {
                let xs = uint_values(uty, n, &mut rng);
                if !ctx.mine() {
                    continue;
                }
                for va in &vals {
                    let a = Spec::new(ta, va.clone(), via_for(ta, &mut rng));
                    for x in &xs {
                        for op in ops {
                            idx += 1;
                            let x = uty.make(*x);
                            if kind == "forms" {
                                let c = Case::new("formsuint").with("a", a.enc()).with("x", x.enc()).with("op", op.name());
                                judge(ctx, &c, "W-uint-rhs");
                            } else {
                                let c = uint_case(&a, x, *op, ALL_FORMS[idx % 6]);
                                judge(ctx, &c, "W-uint-rhs");
                            }
                        }
                    }
                }
            }
        }
    }
}

/// W4 for division: divisor longer than the dividend's length / capacity but small in value,
/// divisor = dividend, dividend + 1, powers of two, all-ones; zero divisors of every shape.
fn w4_div_hostile(ctx: &mut Ctx, kind: &str, ops: &[Op]) {
    let mut rng = Rng::derive(ctx.seed, 0x5555, 0);
    for ta in 0..NTYPES {
        for tb in 0..NTYPES {
            if !ctx.mine() {
                continue;
            }
            let wa = TYPE_WORD_BITS[ta];
            let capa = TYPE_FIXED_CAP[ta];
            let capb = TYPE_FIXED_CAP[tb].unwrap_or(300);
            let lens_a: Vec<usize> = gen::boundary_lens(wa, 8, capa, 130).into_iter().filter(|n| [0, 1, 5, 8, 9, 16, 17, 64, 65, 128, 129].contains(n) || Some(*n) == capa).collect();
            for n in lens_a {
                for va in gen::lattice_small(n, wa, &mut rng) {
                    let a = Spec::new(ta, va.clone(), via_for(ta, &mut rng));
                    // divisor lengths: beyond a's length, beyond a's capacity (when b's type allows)
                    let mut ms = vec![0usize, 1, n.min(capb), (n + 1).min(capb), (n + 9).min(capb), capb.min(n + 70)];
                    if let Some(c) = capa {
                        ms.push((c + 1).min(capb));
                        ms.push((c + 64).min(capb));
                    }
                    ms.sort();
                    ms.dedup();
                    for m in ms {
                        // values: 0, 1, 2, 3, 10, a, a+1, 2^k, all ones (as far as they fit in m bits)
                        let mut cands: Vec<Bits> = vec![vec![false; m]];
                        for small in [1u128, 2, 3, 7, 10] {
                            cands.push(model::from_u128(small & model::mask128(m), m));
                        }
                        let mut same = va.clone();
                        same.resize(m, false);
                        cands.push(same);
                        cands.push(vec![true; m]);
                        if m > 0 {
                            let mut p = vec![false; m];
                            p[m - 1] = true;
                            cands.push(p);
                        }
                        cands.sort();
                        cands.dedup();
                        for vb in cands {
                            let b = Spec::new(tb, vb, via_for(tb, &mut rng));
                            if capa.map_or(false, |c| m > c) && !model::is_zero(&b.bits) {
                                ctx.bucket("divisor-longer-than-lhs-capacity-nonzero");
                            }
                            for op in ops {
                                emit(ctx, kind, &a, &b, *op, None, "W4-division-hostile");
                            }
                            if kind == "binop" {
                                emit(ctx, "divrem", &a, &b, Op::Div, None, "W4-division-hostile");
                            }
                        }
                    }
                }
            }
        }
    }
}

/// Long operands (dynamic and auto types on the left): word boundaries of 64 up to 4097 bits and odd lengths.
fn w_long(ctx: &mut Ctx, kind: &str, ops: &[Op], tier: Tier) {
    let mut rng = Rng::derive(ctx.seed, 0x4097, 0);
    for ta in [IDX_BVD, IDX_BV] {
        for tb in [IDX_BVD, IDX_BV, 9usize, 11, 2] {
            for n in gen::long_lens(tier) {
                if !ctx.mine() {
                    continue;
                }
                let capb = TYPE_FIXED_CAP[tb].unwrap_or(usize::MAX);
                let mut ms = vec![n.min(capb), (n - 1).min(capb), 64.min(capb), 129.min(capb), (n + 64).min(capb), (n / 2).min(capb)];
                ms.sort();
                ms.dedup();
                let vals_a = gen::lattice_small(n, 64, &mut rng);
                for m in ms {
                    let vals_b = gen::lattice_small(m, 64, &mut rng);
                    for va in &vals_a {
                        for vb in &vals_b {
                            if tier != Tier::Thorough && rng.below(3) != 0 {
                                continue;
                            }
                            let a = Spec::new(ta, va.clone(), via_for(ta, &mut rng));
                            let b = Spec::new(tb, vb.clone(), via_for(tb, &mut rng));
                            for op in ops {
                                if matches!(op, Op::Div | Op::Rem) && model::is_zero(vb) {
                                    continue;
                                }
                                ctx.bucket("long-operands");
                                emit(ctx, kind, &a, &b, *op, if kind == "forms" { None } else { Some(ALL_FORMS[rng.below(6)]) }, "W-long-operands");
                            }
                        }
                    }
                }
            }
        }
    }
}

fn w_not(ctx: &mut Ctx, tier: Tier) {
    let mut rng = Rng::derive(ctx.seed, 0x6666, 0);
    for ta in 0..NTYPES {
        let wa = TYPE_WORD_BITS[ta];
        // exhaustive small
        for n in 0..=tier.pick(4, 8, 11).min(TYPE_FIXED_CAP[ta].unwrap_or(99)) {
            if !ctx.mine() {
                continue;
            }
            for va in gen::all_values(n) {
                for by_ref in [false, true] {
                    judge(ctx, &not_case(&Spec::set(ta, va.clone()), by_ref), "W1-small-exhaustive");
                }
            }
        }
        for n in gen::boundary_lens(wa, 8, TYPE_FIXED_CAP[ta], gen::dyn_max(tier)) {
            let vals = gen::lattice(n, wa, &mut rng);
            if !ctx.mine() {
                continue;
            }
            for va in vals {
                for via in VIAS_BASIC {
                    let via = if matches!(via, Via::Spare(_)) && TYPE_FIXED_CAP[ta].is_some() { Via::Set } else { via };
                    for by_ref in [false, true] {
                        judge(ctx, &not_case(&Spec::new(ta, va.clone(), via), by_ref), "W2-word-boundary-lattice");
                    }
                }
            }
        }
    }
}

pub fn run(ctx: &mut Ctx) {
    let prop = ctx.prop.clone();
    let ops = ops_of(&prop);
    let tier = ctx.tier;
    match prop.as_str() {
        "C01" => {
            w1_small(ctx, "binop", ops, tier.pick(2, 4, 6), false);
            w1_word_crossing(ctx, "binop", ops, tier);
            w2_lattice(ctx, "binop", ops, tier, false);
            w3_random(ctx, "binop", ops, tier.pick(300, 150_000, 4_000_000));
            w_uint(ctx, "binop", ops, tier);
            w_long(ctx, "binop", ops, tier);
            #[cfg(feature = "hooks")]
            crate::props::prim::run_prims(ctx);
        }
        "C02" => {
            w1_small(ctx, "binop", ops, tier.pick(2, 4, 6), true);
            w2_lattice(ctx, "binop", ops, tier, false);
            w3_random(ctx, "binop", ops, tier.pick(300, 150_000, 4_000_000));
            w_uint(ctx, "binop", ops, tier);
            w_long(ctx, "binop", ops, tier);
            w4_div_hostile(ctx, "binop", ops);
        }
        "C04" => {
            w1_small(ctx, "binop", ops, tier.pick(2, 4, 6), false);
            w2_lattice(ctx, "binop", ops, tier, false);
            w3_random(ctx, "binop", ops, tier.pick(300, 150_000, 4_000_000));
            w_uint(ctx, "binop", ops, tier);
            w_long(ctx, "binop", ops, tier);
            w_not(ctx, tier);
        }
        "C20" => {
            w1_small(ctx, "forms", ops, tier.pick(1, 3, 4), false);
            w2_lattice(ctx, "forms", ops, tier.pick(Tier::Tiny, Tier::Tiny, Tier::Quick), true);
            w3_random(ctx, "forms", ops, tier.pick(200, 500_000, 4_000_000));
            w_uint(ctx, "forms", ops, tier);
            w_long(ctx, "forms", ops, tier.pick(Tier::Tiny, Tier::Tiny, Tier::Quick));
            w4_div_hostile(ctx, "forms", &[Op::Div, Op::Rem]);
            w_forms_shift(ctx, tier);
            w_not_forms(ctx, tier);
        }
        p => panic!("HARNESS-ERROR: arith cannot run {}", p),
    }
}

fn w_forms_shift(ctx: &mut Ctx, tier: Tier) {
    let mut rng = Rng::derive(ctx.seed, 0x7777, 0);
    for ta in 0..NTYPES {
        let wa = TYPE_WORD_BITS[ta];
        for n in gen::boundary_lens(wa, 8, TYPE_FIXED_CAP[ta], tier.pick(70, 140, 260)) {
            let vals = gen::lattice_small(n, wa, &mut rng);
            if !ctx.mine() {
                continue;
            }
            for va in &vals {
                let a = Spec::new(ta, va.clone(), via_for(ta, &mut rng));
                for k in gen::hostile_amounts(n, wa) {
                    for uty in ALL_UTY {
                        if k > uty.max() {
                            continue;
                        }
                        if tier != Tier::Thorough && rng.below(3) != 0 {
                            continue;
                        }
                        for left in [true, false] {
                            let c = Case::new("formsshift").with("a", a.enc()).with("k", uty.make(k).enc()).with("left", left as u8);
                            judge(ctx, &c, "W4-hostile-shift-amounts");
                        }
                    }
                }
            }
        }
    }
}

fn w_not_forms(ctx: &mut Ctx, tier: Tier) {
    // `!a` vs `!&a`: judged through the C04 `not` cases with both forms compared
    let mut rng = Rng::derive(ctx.seed, 0x8888, 0);
    for ta in 0..NTYPES {
        let wa = TYPE_WORD_BITS[ta];
        for n in gen::boundary_lens(wa, 8, TYPE_FIXED_CAP[ta], gen::dyn_max(tier)) {
            let vals = gen::lattice_small(n, wa, &mut rng);
            if !ctx.mine() {
                continue;
            }
            for va in vals {
                let a = Spec::new(ta, va.clone(), via_for(ta, &mut rng));
                with_type!(ta, A, {
                    let (av, _) = build::<A>(&a);
                    let before = snap(&av);
                    let r1 = guarded(|| av.not_r()).ok().and_then(|v| guarded(|| (v.len(), crate::spec::read_bits(&v))).ok());
                    let r2 = guarded(|| av.clone().not_v()).ok().and_then(|v| guarded(|| (v.len(), crate::spec::read_bits(&v))).ok());
                    let s = sig_hash(&[ta as u64, 777, n as u64, model::hash_bits(&va)]);
                    ctx.eval(s, n > 0);
                    ctx.bucket("forms:not");
                    let cs = not_case(&a, true).enc();
                    let sig = format!("{}|not", type_class(ta));
                    if r1 != r2 {
                        ctx.violation("not-forms-disagree", &sig, &cs, format!("!&a = {:?} but !a = {:?} for {}", r1, r2, a.describe()));
                    }
                    if let (Ok(b), Ok(af)) = (&before, &snap(&av)) {
                        if b != af {
                            ctx.violation("operand-changed:lhs", &sig, &cs, format!("!&a modified a: {:?} -> {:?}", b, af));
                        }
                    }
                });
            }
        }
    }
}

pub const REQUIRED_C01: &[&str] = &[
    "rel:m>n", "rel:m<n", "rel:m=n", "rel:m>cap", "n=0", "m=0",
    "carry-ripples-through-full-word", "borrow-through-zero-word",
    "lhs-spare-capacity-or-heap-short", "different-word-sizes",
    "uint-rhs:u8", "uint-rhs:u16", "uint-rhs:u32", "uint-rhs:u64", "uint-rhs:u128", "uint-rhs:usize",
    "uint-value>=2^n", "long-operands",
];
pub const REQUIRED_C02: &[&str] = &[
    "rel:m>n", "rel:m<n", "rel:m=n", "rel:m>cap", "n=0",
    "divisor-longer-than-lhs-capacity-nonzero",
    "zero-divisor-panicked:empty", "zero-divisor-panicked:zeros", "zero-divisor-panicked:uint",
    "zero-divisor-panicked:div_rem", "uint-wider-than-lhs-capacity",
];
pub const REQUIRED_C04: &[&str] = &[
    "rel:m>n", "rel:m<n", "rel:m=n", "rel:m>cap", "n=0", "m=0", "different-word-sizes",
    "rhs-high-bits-beyond-n:Bvf:or", "rhs-high-bits-beyond-n:Bvd:or", "rhs-high-bits-beyond-n:Bv:or",
    "rhs-high-bits-beyond-n:Bvf:xor", "rhs-high-bits-beyond-n:Bvd:xor", "rhs-high-bits-beyond-n:Bv:xor",
    "rhs-high-bits-beyond-n:Bvf:and", "uint-value>=2^n", "not:by-ref", "not:owned",
    "high-bits-metamorphic", "high-bits-metamorphic:uint",
];
pub const REQUIRED_C20: &[&str] = &[
    "forms:add", "forms:sub", "forms:mul", "forms:div", "forms:rem", "forms:and", "forms:or", "forms:xor",
    "forms:shl", "forms:shr", "forms:not", "forms-uint:u8", "forms-uint:u128",
];
