//! History-driven monitors: C03 (no hidden state), C07 (edits behave like list edits),
//! C18 (capacity management never changes the value).

use crate::battery::battery;
use crate::case::Case;
use crate::exec::guarded;
use crate::gen;
use crate::history::*;
use crate::judge::sig_hash;
use crate::model::{self, Bits};
use crate::report::{Ctx, Tier};
use crate::rng::Rng;
use crate::spec::{build_raw, build_set, read_bits, snap, Spec, Via, VIAS_BASIC};
use crate::types::*;
use crate::with_type;

fn mode_of(prop: &str) -> Mode {
    match prop {
        "C07" => Mode::Edits,
        "C18" => Mode::Capacity,
        _ => Mode::All,
    }
}

fn history_case(init: &Spec, steps: &[Step]) -> Case {
    Case::new("history").with("a", init.enc()).with("steps", enc_steps(steps))
}

fn state_hash<A: Subject>(ctx: &mut Ctx, a: &A, after: &str) -> bool {
    if let Ok(s) = snap(a) {
        let dirty = s.raw.dirty(s.len);
        let h = model::hash_bits(&s.bits) ^ ((A::IDX as u64) << 56) ^ ((s.cap as u64).wrapping_mul(0x9E37_79B9)) ^ ((s.raw.heap as u64) << 55) ^ ((dirty as u64) << 54);
        ctx.states.insert(h);
        if dirty {
            *ctx.dirty_after.entry(after.to_string()).or_insert(0) += 1;
        }
        return dirty;
    }
    false
}

fn storage_buckets<A: Subject>(ctx: &mut Ctx, a: &A) {
    let n = a.len();
    if let Ok(fresh_cap) = guarded(|| A::zeros(n.min(A::FIXED_CAP.unwrap_or(usize::MAX))).capacity()) {
        if A::FIXED_CAP.is_none() && a.capacity() > fresh_cap {
            ctx.bucket("state:spare-capacity");
        }
    }
    match a.is_heap() {
        Some(true) if n <= 128 => ctx.bucket("state:heap-Bv-short"),
        Some(false) => ctx.bucket("state:inline-Bv"),
        _ => {}
    }
    let w = A::WORD_BITS;
    if n % w == 0 {
        ctx.bucket("state:len%W=0");
    } else if n % w == 1 {
        ctx.bucket("state:len%W=1");
    } else if n % w == w - 1 {
        ctx.bucket("state:len%W=W-1");
    }
}

/// C18's differential: the same step on the subject and on a fresh-capacity twin.
fn capacity_differential<A: Subject + AllPairs>(ctx: &mut Ctx, a_before: &A, a_after: &A, step: &Step, sig: &str, cs: &dyn Fn() -> String) {
    let pre = match guarded(|| read_bits(a_before)) {
        Ok(b) => b,
        Err(_) => return,
    };
    let twin_after = guarded(|| {
        let mut t: A = build_set(&pre);
        apply_real(&mut t, step);
        t
    });
    let t = match twin_after {
        Ok(t) => t,
        Err(_) => {
            ctx.bucket("capdiff:fresh-twin-panicked-too");
            return;
        }
    };
    // visible state only: (len, bits) now, and (len, bits) after growing both (stale spare words become visible bits)
    let cmp = guarded(|| {
        let vis = |y: &A| (y.len(), model::to_str(&read_bits(y)));
        let grow = |y: &A| {
            let mut c = y.clone();
            let target = A::FIXED_CAP.map_or(y.len() + 70, |c| (y.len() + 70).min(c));
            c.resize(target, Bit::Zero);
            (c.len(), model::to_str(&read_bits(&c)))
        };
        (vis(a_after), vis(&t), grow(a_after), grow(&t))
    });
    ctx.observer_calls += 4;
    match cmp {
        Ok((va, vt, ga, gt)) => {
            let mut diffs = vec![];
            if va != vt {
                diffs.push(format!("bits differ: subject {:?} vs fresh-capacity twin {:?}", va, vt));
            }
            if ga != gt {
                diffs.push(format!("after growing both by 70 zero bits: {:?} vs {:?}", ga, gt));
            }
            if !diffs.is_empty() {
                ctx.violation(
                    "capacity-changes-behaviour",
                    sig,
                    &cs(),
                    format!(
                        "step `{}` applied to the subject (capacity {}, heap {:?}) and to a fresh vector with the same bits gave different bits: {}",
                        step.enc(),
                        a_before.capacity(),
                        a_before.is_heap(),
                        diffs.join("; ")
                    ),
                );
            }
        }
        Err(p) => ctx.violation("capacity-differential-panicked", sig, &cs(), format!("observing subject/twin after `{}` panicked: {}", step.enc(), p.short())),
    }
}

fn run_history<A: Subject + AllPairs>(ctx: &mut Ctx, case: &Case, wl: &str) {
    let init = case.spec("a");
    let steps = dec_steps(case.get("steps")).expect("HARNESS-ERROR: bad steps");
    let mode = mode_of(&ctx.prop);
    ctx.histories += 1;
    let cs_full = || case.enc();
    ctx.sample(wl, cs_full);
    let tclass = type_class(A::IDX);

    // the initial production path is the first "step" of the history
    let mut a: A = match build_raw::<A>(&init) {
        Ok(a) => a,
        Err(p) => {
            if mode == Mode::Edits && matches!(init.via, Via::PushPop | Via::Trunc | Via::HeapShort) {
                ctx.violation("edit:construction-panicked", &format!("{}|via-{}", tclass, init.via.enc()), &cs_full(), format!("building {} panicked: {}", init.describe(), p.short()));
            } else {
                ctx.bucket("history-init-panicked");
            }
            return;
        }
    };
    let mut m: Bits = init.bits.clone();
    let full_every = if mode == Mode::All { 1 } else { 8 };

    for (i, step) in std::iter::once(None).chain(steps.iter().map(Some)).enumerate() {
        let prefix_case = || {
            // witness = the history up to and including this step
            let upto = if i == 0 { vec![] } else { steps[..i].to_vec() };
            history_case(&init, &upto).enc()
        };
        let name = step.map_or("construct", |s| s.name());
        let class = step.map_or("construct", |s| s.class());
        let a_before = a.clone();
        let m_before = m.clone();
        let cap_before = guarded(|| a.capacity()).unwrap_or(0);
        let heap_before = a.is_heap();
        let mut applied = true;
        let mut len_resync = false;
        if let Some(step) = step {
            if let Step::Bin(op, _, sp) = step {
                if matches!(op, model::Op::And | model::Op::Or | model::Op::Xor) && sp.bits.len() > m_before.len() && sp.bits[m_before.len()..].iter().any(|x| *x) {
                    ctx.bucket("rhs-longer-with-high-bits");
                }
                ctx.type_pairs.insert((A::IDX as u8, sp.ty as u8));
            }
            if let Step::Append(sp) | Step::Prepend(sp) | Step::Insert(_, sp) = step {
                ctx.type_pairs.insert((A::IDX as u8, sp.ty as u8));
                if sp.bits.is_empty() {
                    ctx.bucket(&format!("empty-operand:{}", name));
                }
                if m_before.len() % 8 == 0 {
                    ctx.bucket("splice:byte-aligned");
                } else {
                    ctx.bucket("splice:unaligned");
                }
                if sp.ty != A::IDX {
                    ctx.bucket("splice:mixed-type-operand");
                }
            }
        }
        if let Some(step) = step {
            let ret_m = apply_model::<A>(&mut m, step);
            let r = apply_real_guarded(&mut a, step);
            match r {
                Err(p) => {
                    if p.is_harness() {
                        return;
                    }
                    match mode {
                        Mode::Edits => ctx.violation(
                            &format!("edit:{}:panicked", name),
                            &format!("{}|{}", tclass, name),
                            &prefix_case(),
                            format!("valid edit `{}` on {} (len {}) panicked: {}", step.enc(), A::NAME, m_before.len(), p.short()),
                        ),
                        Mode::Capacity => {
                            // capacity-related only if a fresh-capacity twin does not panic as well
                            let twin = guarded(|| {
                                let mut t: A = build_set(&m_before);
                                apply_real(&mut t, step);
                            });
                            // "the dynamic and auto types never fail or panic for lack of capacity: any edit may grow them to
                            // any length": a valid edit that makes a growable vector longer (or collects a new one) must not panic
                            let grows = A::FIXED_CAP.is_none() && (m.len() > m_before.len() || matches!(step, Step::Collect(..)));
                            if grows && matches!(step.class(), "edit" | "splice") {
                                ctx.violation(
                                    &format!("capacity:{}:growth-panicked", name),
                                    &format!("{}|{}", tclass, name),
                                    &prefix_case(),
                                    format!("`{}` on a {} of {} bits (capacity {}, heap {:?}) panicked instead of growing the vector to {} bits: {}", step.enc(), A::NAME, m_before.len(), cap_before, heap_before, m.len(), p.short()),
                                );
                            } else if twin.is_ok() && guarded(|| read_bits(&a_before)).map_or(false, |b| b == m_before) {
                                ctx.violation(
                                    &format!("capacity:{}:panicked", name),
                                    &format!("{}|{}", tclass, name),
                                    &prefix_case(),
                                    format!("`{}` panicked on the subject (capacity {}, heap {:?}) but not on a fresh vector with the same bits: {}", step.enc(), cap_before, heap_before, p.short()),
                                );
                            } else {
                                ctx.bucket(&format!("history-ended-by-panic:{}", name));
                            }
                        }
                        Mode::All => ctx.bucket(&format!("history-ended-by-panic:{}", name)),
                    }
                    return;
                }
                Ok(Ret::Skipped) => {
                    m = m_before.clone();
                    applied = false;
                    if ret_m != Ret::Skipped && !matches!(step, Step::Reserve(_) | Step::Shrink | Step::Rebuild | Step::Conv(..)) {
                        ctx.bucket("step-skipped-by-real-only");
                    }
                }
                Ok(ret) => {
                    if ret_m == Ret::Skipped {
                        // model thought the conversion would fail, the real one succeeded: not judged here
                        ctx.bucket("step-skipped-by-model-only");
                        if let Ok(b) = guarded(|| read_bits(&a)) {
                            m = b;
                        }
                    } else if mode == Mode::Edits && ret != ret_m {
                        ctx.violation(
                            &format!("edit:{}:returned", name),
                            &format!("{}|{}", tclass, name),
                            &prefix_case(),
                            format!("`{}` returned {:?}, a list of bits returns {:?}", step.enc(), ret, ret_m),
                        );
                    }
                }
            }
        }
        if !applied {
            continue;
        }
        // ---- observe ----
        let actual = match guarded(|| (a.len(), read_bits(&a))) {
            Ok(x) => x,
            Err(p) => {
                if mode == Mode::Edits {
                    ctx.violation(&format!("edit:{}:unreadable", name), &format!("{}|{}", tclass, name), &prefix_case(), p.short());
                } else {
                    ctx.bucket("history-ended-unreadable");
                }
                return;
            }
        };
        let s = sig_hash(&[A::IDX as u64, i as u64, model::hash_bits(&actual.1), model::hash64(name.as_bytes()), model::hash_bits(&m_before), model::hash64(step.map_or(String::new(), |s| s.enc()).as_bytes())]);
        ctx.eval(s, !actual.1.is_empty());
        ctx.note_len(actual.0);
        ctx.bucket(&format!("after:{}", class));
        storage_buckets(ctx, &a);
        state_hash(ctx, &a, name);
        let heap_after = a.is_heap();
        if heap_before == Some(false) && heap_after == Some(true) {
            ctx.bucket("switch:inline->heap");
        }
        if heap_before == Some(true) && heap_after == Some(false) {
            ctx.bucket("switch:heap->inline");
        }
        let bits_ok = actual.0 == m.len() && actual.1 == m;
        match mode {
            Mode::All => {
                if !bits_ok {
                    // wrong bits are the business of the property owning that operation; C03 only asks
                    // whether the vector, with the bits it has, behaves like a fresh one
                    ctx.bucket("resync:bits-differ-from-model(not judged by C03)");
                    len_resync = actual.0 != m.len();
                    m = actual.1.clone();
                }
                let fails = battery(ctx, &a, &m, true);
                if let Some(f) = fails.first() {
                    ctx.violation(
                        "hidden-state",
                        &format!("{}|after-{}", tclass, name),
                        &prefix_case(),
                        format!(
                            "after `{}` the {} (len {}, bits {}) is distinguishable from a freshly built vector with the same bits by {} observer(s)/probe(s); first: {} : {}",
                            step.map_or(format!("construct via {}", init.via.enc()), |s| s.enc()),
                            A::NAME,
                            m.len(),
                            model::to_str(&m),
                            fails.len(),
                            f.item,
                            f.detail
                        ),
                    );
                    return;
                }
            }
            Mode::Edits => {
                if !bits_ok {
                    ctx.violation(
                        &format!("edit:{}:result", name),
                        &format!("{}|{}", tclass, name),
                        &prefix_case(),
                        format!(
                            "after `{}` on {} (len {} bits {}): got len {} bits {} ; the list model says len {} bits {}",
                            step.map_or("construct".to_string(), |s| s.enc()),
                            A::NAME,
                            m_before.len(),
                            model::to_str(&m_before),
                            actual.0,
                            model::to_str(&actual.1),
                            m.len(),
                            model::to_str(&m)
                        ),
                    );
                    return;
                }
                let fails = battery(ctx, &a, &m, i % full_every == 0);
                if let Some(f) = fails.first() {
                    ctx.violation(
                        &format!("edit:{}:hidden-state", name),
                        &format!("{}|{}", tclass, name),
                        &prefix_case(),
                        format!("after `{}` the result is distinguishable from a fresh vector with the same bits: {} : {}", step.map_or("construct".to_string(), |s| s.enc()), f.item, f.detail),
                    );
                    return;
                }
            }
            Mode::Capacity => {
                let sigc = format!("{}|{}", tclass, name);
                // invariant: len <= capacity
                let cap_after = guarded(|| a.capacity()).unwrap_or(0);
                if actual.0 > cap_after {
                    ctx.violation("len>capacity", &sigc, &prefix_case(), format!("after `{}`: len {} > capacity {}", name, actual.0, cap_after));
                    return;
                }
                if let Some(step) = step {
                    if A::FIXED_CAP.is_none() {
                        match step {
                            Step::WithCapacity(c) => {
                                ctx.bucket("cap:with_capacity");
                                if actual.0 != 0 || cap_after < *c {
                                    ctx.violation("with_capacity", &sigc, &prefix_case(), format!("with_capacity({}) gave len {} capacity {}", c, actual.0, cap_after));
                                }
                            }
                            Step::Reserve(k) => {
                                ctx.bucket("cap:reserve");
                                if !bits_ok || cap_after < actual.0 + *k {
                                    ctx.violation(
                                        "reserve",
                                        &sigc,
                                        &prefix_case(),
                                        format!("reserve({}) on len {}: bits unchanged = {}, capacity {} (needs >= {})", k, m_before.len(), bits_ok, cap_after, actual.0 + *k),
                                    );
                                    return;
                                }
                            }
                            Step::Shrink => {
                                ctx.bucket("cap:shrink_to_fit");
                                if m_before.len() < 130 && cap_before > 192 {
                                    ctx.bucket("cap:shrink-after-truncate");
                                }
                                let fresh = guarded(|| A::zeros(actual.0).capacity()).unwrap_or(usize::MAX);
                                if !bits_ok || cap_after > fresh {
                                    ctx.violation(
                                        "shrink_to_fit",
                                        &sigc,
                                        &prefix_case(),
                                        format!("shrink_to_fit on len {}: bits unchanged = {}, capacity {} but a fresh vector of that length has {}", actual.0, bits_ok, cap_after, fresh),
                                    );
                                    return;
                                }
                            }
                            _ => {}
                        }
                    }
                    // storage switch of the auto type must not change observable bits
                    if heap_before.is_some() && heap_before != heap_after && !bits_ok && matches!(step.class(), "edit" | "splice" | "capacity") {
                        ctx.violation(
                            "storage-switch-changed-bits",
                            &sigc,
                            &prefix_case(),
                            format!("`{}` switched storage (heap {:?} -> {:?}) and produced len {} bits {} ; expected len {} bits {}", step.enc(), heap_before, heap_after, actual.0, model::to_str(&actual.1), m.len(), model::to_str(&m)),
                        );
                        return;
                    }
                    // differential against a fresh-capacity twin when the subject's storage was not fresh
                    let pre_n = m_before.len();
                    let fresh_cap = guarded(|| A::zeros(pre_n.min(A::FIXED_CAP.unwrap_or(usize::MAX))).capacity()).unwrap_or(0);
                    let nonfresh = cap_before != fresh_cap || (heap_before == Some(true) && pre_n <= 128);
                    if nonfresh && A::FIXED_CAP.is_none() {
                        ctx.bucket(&format!("capdiff:{}", class));
                        capacity_differential(ctx, &a_before, &a, step, &sigc, &prefix_case);
                    }
                }
                if !bits_ok {
                    ctx.bucket("resync:bits-differ-from-model(not judged by C18)");
                    len_resync = actual.0 != m.len();
                    m = actual.1.clone();
                }
            }
        }
        if len_resync {
            // the remaining steps were generated for the length the model predicted; with another length they may be
            // invalid calls (index / range out of bounds), so the history ends here
            ctx.bucket("history-cut-after-length-resync");
            return;
        }
    }
}

/// Growth chains: Bvd / Bv grown to `target` bits through doubling appends, resizes, extends and
/// pushes; judged against the list model through to_vec / len / sampled get.
fn run_growth<A: Subject + AllPairs>(ctx: &mut Ctx, case: &Case, wl: &str) {
    let target = case.usize("target");
    let seed = case.usize("seed") as u64;
    let mut rng = Rng::new(seed);
    let mut a = A::with_capacity(0);
    let mut m: Bits = vec![];
    ctx.sample(wl, || case.enc());
    let sig = format!("{}|growth", type_class(A::IDX));
    let mut step_no = 0;
    while m.len() < target {
        step_no += 1;
        let n = m.len();
        let k = (n.max(1)).min(target - n) + rng.below(3);
        let heap_before = a.is_heap();
        let what = rng.below(5);
        let r = guarded(|| match what {
            0 => {
                let add: Bits = (0..k).map(|_| rng.bool()).collect();
                let other: Bvd = build_set(&add);
                a.append(&other);
                add
            }
            1 => {
                let b = rng.bool();
                a.resize(n + k, bit(b));
                vec![b; k]
            }
            2 => {
                let add: Bits = (0..k.min(5000)).map(|_| rng.bool()).collect();
                a.extend_bits(add.clone().into_iter().map(bit));
                add
            }
            3 => {
                let add: Bits = (0..k.min(300)).map(|_| rng.bool()).collect();
                for b in &add {
                    a.push(bit(*b));
                }
                add
            }
            _ => {
                let add: Bits = (0..k).map(|_| rng.bool()).collect();
                let other: Bv = build_set(&add);
                a.append(&other);
                add
            }
        });
        match r {
            Ok(add) => m.extend(add),
            Err(p) => {
                ctx.violation("growth:panicked", &sig, &case.enc(), format!("growing {} from {} bits (step {}) panicked: {}", A::NAME, n, step_no, p.short()));
                return;
            }
        }
        ctx.eval(sig_hash(&[A::IDX as u64, seed, step_no as u64, m.len() as u64]), true);
        ctx.note_len(m.len());
        if heap_before == Some(false) && a.is_heap() == Some(true) {
            ctx.bucket("switch:inline->heap");
        }
        let ok = guarded(|| {
            let cap_ok = a.capacity() >= a.len();
            let len_ok = a.len() == m.len();
            let bytes_ok = a.to_vec(Endianness::Little) == model::bytes_le(&m);
            (cap_ok, len_ok, bytes_ok)
        });
        match ok {
            Ok((true, true, true)) => {}
            Ok((c, l, b)) => {
                ctx.violation("growth:result", &sig, &case.enc(), format!("after growing {} to {} bits (step {}): capacity>=len {}, len ok {}, bytes ok {}", A::NAME, m.len(), step_no, c, l, b));
                return;
            }
            Err(p) => {
                ctx.violation("growth:observe-panicked", &sig, &case.enc(), p.short());
                return;
            }
        }
    }
    ctx.bucket("growth-chain-completed");
    // shrink back across the boundaries
    let r = guarded(|| {
        a.truncate(100);
        a.shrink_x();
        (a.len(), a.capacity(), read_bits(&a))
    });
    m.truncate(100);
    match r {
        Ok((l, c, bits)) => {
            let fresh = A::zeros(l).capacity();
            if l != m.len() || bits != m || c > fresh {
                ctx.violation("growth:shrink-back", &sig, &case.enc(), format!("truncate(100)+shrink_to_fit: len {} capacity {} (fresh {}) bits ok {}", l, c, fresh, bits == m));
            } else {
                ctx.bucket("cap:shrink-after-truncate");
                if a.is_heap() == Some(false) {
                    ctx.bucket("switch:heap->inline");
                }
            }
        }
        Err(p) => ctx.violation("growth:shrink-back-panicked", &sig, &case.enc(), p.short()),
    }
}

pub fn judge(ctx: &mut Ctx, case: &Case, wl: &str) {
    match case.kind.as_str() {
        "history" => {
            let ty = case.spec("a").ty;
            with_type!(ty, A, { run_history::<A>(ctx, case, wl) })
        }
        "growth" => {
            let ty = case.usize("ty");
            with_type!(ty, A, { run_growth::<A>(ctx, case, wl) })
        }
        "edit2" => judge_edit_pair(ctx, case, wl),
        k => panic!("HARNESS-ERROR: hist cannot judge case kind {}", k),
    }
}

pub fn replay(ctx: &mut Ctx, case: &Case) {
    judge(ctx, case, "replay")
}

/// W1 for C07: one splice (append / prepend / insert at i) of operand b into subject a.
fn judge_edit_pair(ctx: &mut Ctx, case: &Case, wl: &str) {
    let a = case.spec("a");
    let step = Step::dec(case.get("step")).expect("HARNESS-ERROR: step");
    let c = history_case(&a, &[step]);
    let ty = a.ty;
    with_type!(ty, A, { run_history::<A>(ctx, &c, wl) })
}

fn via_for(ty: usize, rng: &mut Rng) -> Via {
    let v = *rng.pick(&VIAS_BASIC);
    match v {
        Via::Spare(_) if TYPE_FIXED_CAP[ty].is_some() => Via::Set,
        Via::Spare(_) => Via::Spare(*rng.pick(&[1usize, 63, 64, 65, 130, 300])),
        v => v,
    }
}

fn gen_history(ty: usize, mode: Mode, max_len: usize, max_steps: usize, rng: &mut Rng) -> (Spec, Vec<Step>) {
    let n0 = if rng.chance(1, 3) { 0 } else { gen::random_len(ty, max_len.min(200), rng) };
    let init = Spec::new(ty, gen::random_bits(n0, rng), via_for(ty, rng));
    let nsteps = 1 + rng.below(max_steps);
    let mut steps = Vec::with_capacity(nsteps);
    // track the model length (valid steps depend on it)
    let mut m = init.bits.clone();
    for _ in 0..nsteps {
        let st = gen_step(ty, m.len(), mode, max_len, rng);
        with_type!(ty, A, {
            let mut m2 = m.clone();
            if apply_model::<A>(&mut m2, &st) != Ret::Skipped {
                m = m2;
            }
        });
        steps.push(st);
    }
    (init, steps)
}

fn w3_histories(ctx: &mut Ctx, count: usize, max_steps: usize, max_len: usize) {
    let mode = mode_of(&ctx.prop);
    let per = count / ctx.nworkers + 1;
    let mut rng = Rng::derive(ctx.seed, 0x0303, ctx.worker as u64);
    for i in 0..per {
        // C18: mostly the types that manage capacity
        let ty = if mode == Mode::Capacity && i % 4 != 0 { IDX_BVD + (i / 4) % 2 } else { (i + ctx.worker) % NTYPES };
        let (init, steps) = gen_history(ty, mode, max_len, max_steps, &mut rng);
        let c = history_case(&init, &steps);
        judge(ctx, &c, "W3-seeded-random-histories");
    }
}

/// W1 for C03: every production path, then every single mutator applied to small subjects, with
/// the full battery after each: systematically forms the "one op then observe" pairs.
fn w1_two_step(ctx: &mut Ctx, tier: Tier) {
    let mode = mode_of(&ctx.prop);
    let mut rng = Rng::derive(ctx.seed, 0x0304, 0);
    let reps = tier.pick(1, 6, 40);
    for ty in 0..NTYPES {
        let w = TYPE_WORD_BITS[ty];
        for n in gen::boundary_lens(w, 8, TYPE_FIXED_CAP[ty], tier.pick(70, 140, 200)) {
            for via in VIAS_BASIC {
                let via = if matches!(via, Via::Spare(_)) && TYPE_FIXED_CAP[ty].is_some() { Via::Set } else { via };
                if !ctx.mine() {
                    continue;
                }
                for _ in 0..reps {
                    let vals = gen::lattice_small(n, w, &mut rng);
                    let v = rng.pick(&vals).clone();
                    let init = Spec::new(ty, v, via);
                    let st1 = gen_step(ty, n, mode, 300, &mut rng);
                    let mut m = init.bits.clone();
                    with_type!(ty, A, {
                        let mut m2 = m.clone();
                        if apply_model::<A>(&mut m2, &st1) != Ret::Skipped {
                            m = m2;
                        }
                    });
                    let st2 = gen_step(ty, m.len(), mode, 300, &mut rng);
                    judge(ctx, &history_case(&init, &[st1, st2]), "W1-two-step-systematic");
                }
            }
        }
    }
}

/// W4 for C03: the hostile two-step histories named in the property text and their neighbours.
fn w4_hostile(ctx: &mut Ctx) {
    let mut rng = Rng::derive(ctx.seed, 0x0305, 0);
    for ty in 0..NTYPES {
        if !ctx.mine() {
            continue;
        }
        let cap = TYPE_FIXED_CAP[ty];
        let w = TYPE_WORD_BITS[ty];
        let lens: Vec<usize> = gen::boundary_lens(w, 8, cap, 200).into_iter().filter(|n| *n > 0).collect();
        for n in lens {
            let init = Spec::set(ty, gen::random_bits(n, &mut rng));
            // | ^ with a longer RHS carrying high bits, of every class
            for tb in [0usize, 4, 8, 11, IDX_BVD, IDX_BV] {
                let capb = TYPE_FIXED_CAP[tb].unwrap_or(n + 80);
                if capb <= n {
                    continue;
                }
                let mut bits = gen::random_bits(capb.min(n + 80), &mut rng);
                for x in bits[n..].iter_mut() {
                    *x = true;
                }
                for op in [model::Op::Or, model::Op::Xor, model::Op::And, model::Op::Sub, model::Op::Add] {
                    let st = Step::Bin(op, ALL_FORMS[rng.below(6)], Spec::set(tb, bits.clone()));
                    let follow = gen_step(ty, n, Mode::All, 300, &mut rng);
                    judge(ctx, &history_case(&init, &[st, follow]), "W4-hostile");
                }
            }
            // uint with bits above n
            for x in [UInt::U8(0xF0), UInt::U16(0xFFFF), UInt::U64(u64::MAX), UInt::U128(u128::MAX)] {
                for op in [model::Op::Or, model::Op::Xor] {
                    judge(ctx, &history_case(&init, &[Step::BinUint(op, ALL_FORMS[rng.below(6)], x)]), "W4-hostile");
                }
            }
            // read with surplus bits set in the top byte, both endiannesses
            let nbytes = (n + 7) / 8;
            for big in [false, true] {
                judge(ctx, &history_case(&init, &[Step::Read(vec![0xff; nbytes], n, big), Step::Resize(cap.map_or(n + 9, |c| (n + 9).min(c)), false)]), "W4-hostile");
            }
            // spare storage words first (reserve, or grown and cut back), then every native integer type at its extreme
            // values and a longer vector operand of every class: words the length does not use must stay untouched
            if cap.is_none() {
                let prefixes: [Vec<Step>; 3] = [
                    vec![Step::Reserve(n + 130)],
                    vec![Step::Resize(n + 130, false), Step::Truncate(n)],
                    vec![Step::Resize(n + 70, true), Step::Resize(n, false)],
                ];
                for (pi, pre) in prefixes.iter().enumerate() {
                    for x in [UInt::U8(0xF0), UInt::U16(0xFFFF), UInt::U32(u32::MAX), UInt::U64(u64::MAX), UInt::Usize(usize::MAX), UInt::U128(u128::MAX), UInt::U128(1u128 << 64), UInt::U128(1u128 << 127)] {
                        for op in [model::Op::Or, model::Op::Xor, model::Op::And, model::Op::Add, model::Op::Sub, model::Op::Mul] {
                            let mut st = pre.clone();
                            st.push(Step::BinUint(op, ALL_FORMS[rng.below(6)], x));
                            judge(ctx, &history_case(&init, &st), "W4-hostile");
                        }
                    }
                    if pi < 2 {
                        for tb in [4usize, 9, 11, IDX_BVD, IDX_BV] {
                            let capb = TYPE_FIXED_CAP[tb].unwrap_or(n + 140);
                            if capb <= n {
                                continue;
                            }
                            for op in [model::Op::Or, model::Op::Xor, model::Op::Add, model::Op::Sub] {
                                let mut st = pre.clone();
                                st.push(Step::Bin(op, ALL_FORMS[rng.below(6)], Spec::set(tb, vec![true; capb.min(n + 140)])));
                                judge(ctx, &history_case(&init, &st), "W4-hostile");
                            }
                        }
                    }
                }
            }
            // reserve, then arithmetic with a longer fixed operand
            if cap.is_none() {
                for tb in [8usize, 9, 11] {
                    let mb = TYPE_FIXED_CAP[tb].unwrap();
                    for op in [model::Op::Sub, model::Op::Add, model::Op::Or, model::Op::Xor, model::Op::And] {
                        let st = vec![Step::Reserve(200), Step::Bin(op, Form::AR, Spec::set(tb, vec![true; mb]))];
                        judge(ctx, &history_case(&init, &st), "W4-hostile");
                    }
                }
            }
        }
    }
}

/// extend / collect from iterators of every size_hint shape, at lengths where the subject crosses a word boundary, the
/// inline/heap limit of `Bv` or its reserved capacity while the hint said it would not.
fn w_iter_hints(ctx: &mut Ctx) {
    let mut rng = Rng::derive(ctx.seed, 0x0718, 0);
    for ty in 0..NTYPES {
        if !ctx.mine() {
            continue;
        }
        let cap = TYPE_FIXED_CAP[ty];
        let limit = cap.unwrap_or(400);
        let w = TYPE_WORD_BITS[ty];
        let mut lens = vec![0usize, 1, w - 1, w, w + 1, 60, 64, 100, 120, 126, 127, 128, 129, 190, 192];
        lens.retain(|n| *n <= limit);
        lens.sort();
        lens.dedup();
        for n in lens {
            for k in [0usize, 1, 2, 7, 8, 9, 29, 63, 64, 65, 70, 130, 200] {
                if n + k > limit {
                    continue;
                }
                for kind in 0..7u8 {
                    let init = Spec::new(ty, gen::random_bits(n, &mut rng), if kind % 2 == 0 { Via::Set } else { via_for(ty, &mut rng) });
                    let add = gen::random_bits(k, &mut rng);
                    // (every step must stay within a fixed capacity: exceeding it is a legitimate panic, C19's subject)
                    let mut steps = vec![Step::Extend(add.clone(), kind)];
                    if n + k + 1 <= limit {
                        steps.push(Step::Push(true));
                    }
                    judge(ctx, &history_case(&init, &steps), "W-iterator-size-hints");
                    if (n == 0 || n == 64) && k + 3 <= limit {
                        judge(ctx, &history_case(&init, &[Step::Collect(add, kind), Step::Extend(vec![true, false, true], kind)]), "W-iterator-size-hints");
                    }
                }
            }
        }
    }
}

fn w_edit_pairs(ctx: &mut Ctx, tier: Tier) {
    // all (len_subject, len_operand) <= L x lattice values x {append, prepend, insert at every i} per type pair
    let l = tier.pick(4, 12, 16);
    let mut rng = Rng::derive(ctx.seed, 0x0707, 0);
    for ta in 0..NTYPES {
        for tb in 0..NTYPES {
            if !ctx.mine() {
                continue;
            }
            let capa = TYPE_FIXED_CAP[ta].unwrap_or(usize::MAX);
            let capb = TYPE_FIXED_CAP[tb].unwrap_or(usize::MAX);
            for n in 0..=l.min(capa) {
                for mlen in 0..=l.min(capb) {
                    if n + mlen > capa {
                        continue;
                    }
                    // quick: sample the (n, m) grid per pair
                    if tier != Tier::Thorough && rng.below(4) != 0 && !(n == 0 || mlen == 0 || n % 8 == 0) {
                        continue;
                    }
                    let a = Spec::new(ta, gen::random_bits(n, &mut rng), via_for(ta, &mut rng));
                    let b = Spec::new(tb, gen::random_bits(mlen, &mut rng), via_for(tb, &mut rng));
                    let mut steps = vec![Step::Append(b.clone()), Step::Prepend(b.clone())];
                    for i in 0..=n {
                        steps.push(Step::Insert(i, b.clone()));
                    }
                    for st in steps {
                        judge(ctx, &Case::new("edit2").with("a", a.enc()).with("step", st.enc()), "W1-splice-grid");
                    }
                }
            }
        }
    }
    // lengths crossing the 8/16/32/64/128-bit and inline/heap boundaries both ways
    for ta in 0..NTYPES {
        let capa = TYPE_FIXED_CAP[ta];
        let w = TYPE_WORD_BITS[ta];
        for n in gen::boundary_lens(w, 8, capa, 200) {
            if !ctx.mine() {
                continue;
            }
            let room = capa.map_or(200, |c| c - n);
            for mlen in [0usize, 1, 7, 8, 9, 63, 64, 65, 127, 128, 129] {
                if mlen > room {
                    continue;
                }
                for tb in [0usize, 3, 7, 10, IDX_BVD, IDX_BV, ta] {
                    if TYPE_FIXED_CAP[tb].map_or(false, |c| mlen > c) {
                        continue;
                    }
                    let a = Spec::new(ta, gen::random_bits(n, &mut rng), via_for(ta, &mut rng));
                    let b = Spec::new(tb, gen::random_bits(mlen, &mut rng), via_for(tb, &mut rng));
                    for st in [Step::Append(b.clone()), Step::Prepend(b.clone()), Step::Insert(n / 2, b.clone()), Step::Insert(n, b.clone()), Step::Insert(0, b.clone())] {
                        judge(ctx, &Case::new("edit2").with("a", a.enc()).with("step", st.enc()), "W2-boundary-splices");
                    }
                }
            }
        }
    }
}

/// Deterministic grid for C18: every boundary length x reserve amount / with_capacity size, then one operation of
/// each class on the spare-capacity vector, then shrink_to_fit (post-conditions and the per-step differential apply).
fn w_capacity_grid(ctx: &mut Ctx, tier: Tier) {
    let mut rng = Rng::derive(ctx.seed, 0x1818, 0);
    for ty in [IDX_BVD, IDX_BV] {
        for n in gen::boundary_lens(64, 8, None, tier.pick(130, 260, 400)) {
            if !ctx.mine() {
                continue;
            }
            for k in [1usize, 63, 64, 65, 127, 128, 129, 200] {
                for rep in 0..tier.pick(1, 2, 6) {
                    let bits = match rep {
                        0 => vec![true; n],
                        _ => gen::random_bits(n, &mut rng),
                    };
                    let init = Spec::set(ty, bits);
                    let follow = gen_step(ty, n, Mode::Capacity, 400, &mut rng);
                    let ops: Vec<Vec<Step>> = vec![
                        vec![Step::Reserve(k), Step::Shrink],
                        vec![Step::Reserve(k), Step::Rot(rep % 2 == 0, if n >= 64 { 64 } else { n / 2 }), Step::Rot(true, n), Step::Shrink],
                        vec![Step::Reserve(k), Step::ShIn(true, true), Step::ShIn(false, true), Step::Not(rep % 2 == 0), Step::Shrink],
                        vec![Step::Reserve(k), Step::Resize(n + k / 2, true), Step::SignExtend(n + k), Step::Shrink],
                        vec![Step::Reserve(k), Step::Push(true), Step::Pop, Step::Shrink],
                        vec![Step::Reserve(k), follow.clone(), Step::Shrink, Step::Reserve(1), Step::Shrink],
                        vec![Step::WithCapacity(n + k), Step::Resize(n, true), Step::Shrink],
                        vec![Step::Resize(n + k, false), Step::Truncate(n), Step::Shrink],
                    ];
                    for steps in ops {
                        judge(ctx, &history_case(&init, &steps), "W-capacity-grid");
                    }
                }
            }
        }
    }
}

fn w_growth(ctx: &mut Ctx, tier: Tier) {
    let targets: Vec<usize> = match tier {
        Tier::Tiny => vec![300],
        Tier::Quick => vec![1 << 10, 1 << 13, (1 << 14) + 77],
        Tier::Thorough => vec![1 << 12, 1 << 16, 1 << 18, 1 << 20, (1 << 20) + 1],
    };
    let mut k = 0u64;
    for ty in [IDX_BVD, IDX_BV] {
        for t in &targets {
            for rep in 0..tier.pick(1, 3, 4) {
                k += 1;
                if !ctx.mine() {
                    continue;
                }
                let c = Case::new("growth").with("ty", ty).with("target", *t).with("seed", ctx.seed.wrapping_mul(1000) + k * 10 + rep as u64);
                judge(ctx, &c, "W-growth-chains");
            }
        }
    }
}

pub fn run(ctx: &mut Ctx) {
    let tier = ctx.tier;
    match ctx.prop.as_str() {
        "C03" => {
            w1_two_step(ctx, tier);
            w4_hostile(ctx);
            w_iter_hints(ctx);
            w3_histories(ctx, tier.pick(40, 2_500, 60_000), tier.pick(12, 40, 120), tier.pick(200, 400, 700));
        }
        "C07" => {
            w_edit_pairs(ctx, tier);
            w_iter_hints(ctx);
            w1_two_step(ctx, tier);
            w3_histories(ctx, tier.pick(60, 8_000, 60_000), tier.pick(15, 60, 200), tier.pick(200, 400, 900));
            w_growth(ctx, tier);
        }
        "C18" => {
            w_capacity_grid(ctx, tier);
            w_iter_hints(ctx);
            w3_histories(ctx, tier.pick(60, 600_000, 3_000_000), tier.pick(15, 60, 300), tier.pick(200, 400, 900));
            w4_hostile(ctx);
            w_growth(ctx, tier);
        }
        p => panic!("HARNESS-ERROR: hist cannot run {}", p),
    }
}

pub const REQUIRED_C03: &[&str] = &[
    "after:construct", "after:edit", "after:splice", "after:arith", "after:logic", "after:division", "after:shift",
    "after:capacity", "after:convert", "after:io", "after:parse",
    "state:spare-capacity", "state:heap-Bv-short", "state:inline-Bv", "state:len%W=0", "state:len%W=1", "state:len%W=W-1",
    "rhs-longer-with-high-bits",
];
pub const REQUIRED_C07: &[&str] = &[
    "empty-operand:append", "empty-operand:prepend", "empty-operand:insert", "splice:byte-aligned", "splice:unaligned",
    "splice:mixed-type-operand", "switch:inline->heap", "switch:heap->inline", "growth-chain-completed", "after:edit", "after:splice",
];
pub const REQUIRED_C18: &[&str] = &[
    "switch:inline->heap", "switch:heap->inline", "cap:with_capacity", "cap:reserve", "cap:shrink_to_fit",
    "cap:shrink-after-truncate", "capdiff:arith", "capdiff:logic", "capdiff:edit", "capdiff:splice", "capdiff:shift", "growth-chain-completed",
];
