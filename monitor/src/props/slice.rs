//! C08: copy_range / split_off / split / first / last.

use crate::case::Case;
use crate::exec::guarded;
use crate::gen;
use crate::judge::*;
use crate::model;
use crate::report::{Ctx, Tier};
use crate::rng::Rng;
use crate::spec::{build, read_bits, snap, Spec, Via, VIAS_BASIC};
use crate::types::*;
use crate::with_type;

fn via_for(ty: usize, rng: &mut Rng) -> Via {
    let v = *rng.pick(&VIAS_BASIC);
    match v {
        Via::Spare(_) if TYPE_FIXED_CAP[ty].is_some() => Via::Set,
        Via::Spare(_) => Via::Spare(*rng.pick(&[1usize, 64, 65, 200])),
        v => v,
    }
}

fn judge_slice<A: Subject + AllPairs>(ctx: &mut Ctx, case: &Case, wl: &str) {
    let a = case.spec("a");
    let s = case.usize("s");
    let e = case.usize("e");
    let n = a.bits.len();
    let (av, _) = build::<A>(&a);
    let before = snap(&av);
    let r = guarded(|| av.copy_range(s..e));
    let h = sig_hash(&[a.ty as u64, 800, s as u64, e as u64, n as u64, model::hash_bits(&a.bits), model::hash64(a.via.enc().as_bytes())]);
    ctx.eval(h, e > s && !model::is_zero(&a.bits[s..e]));
    let w = TYPE_WORD_BITS[a.ty];
    if s == e {
        ctx.bucket(if s == n { "slice:empty-at-len" } else { "slice:empty" });
    }
    if s > 0 && s % w == 0 {
        ctx.bucket("slice:start-word-aligned");
    }
    if s % w != 0 && e - s > w {
        ctx.bucket("slice:unaligned-multi-word");
    }
    if e == n && n > 0 {
        ctx.bucket("slice:to-end");
    }
    if av.is_heap() == Some(true) && e - s <= 128 {
        ctx.bucket("slice:heap-Bv-source-short-slice");
    }
    let sig = format!("{}|copy_range", type_class(a.ty));
    let cs = || Case::new("slice").with("a", a.enc()).with("s", s).with("e", e).enc();
    ctx.sample(wl, cs);
    match r {
        Ok(res) => {
            check_result::<A>(ctx, "copy_range", &sig, &cs(), &res, &a.bits[s..e], h % 29 == 0);
        }
        Err(p) => ctx.violation("copy_range:unexpected-panic", &sig, &cs(), format!("{}.copy_range({}..{}) panicked: {}", a.describe(), s, e, p.short())),
    }
    if let (Ok(b), Ok(af)) = (&before, &snap(&av)) {
        if b != af {
            ctx.violation("copy_range:source-changed", &sig, &cs(), format!("source changed: {:?} -> {:?}", b, af));
        }
    }
}

fn judge_split<A: Subject + AllPairs>(ctx: &mut Ctx, case: &Case, wl: &str) {
    let a = case.spec("a");
    let i = case.usize("i");
    let by_split = case.flag("split");
    let n = a.bits.len();
    let (av, _) = build::<A>(&a);
    let h = sig_hash(&[a.ty as u64, 801 + by_split as u64, i as u64, n as u64, model::hash_bits(&a.bits), model::hash64(a.via.enc().as_bytes())]);
    ctx.eval(h, n > 0 && !model::is_zero(&a.bits));
    let w = TYPE_WORD_BITS[a.ty];
    if i == 0 {
        ctx.bucket("split:at-0");
    }
    if i == n {
        ctx.bucket("split:at-len");
    }
    if i > 0 && i < n && i % w == 0 {
        ctx.bucket("split:at-word-boundary");
    }
    let opn = if by_split { "split" } else { "split_off" };
    let sig = format!("{}|{}", type_class(a.ty), opn);
    let cs = || Case::new("split").with("a", a.enc()).with("i", i).with("split", by_split as u8).enc();
    ctx.sample(wl, cs);
    let r = guarded(|| {
        if by_split {
            let (hi, lo) = av.clone().split(i);
            (hi, lo)
        } else {
            let mut lo = av.clone();
            let hi = lo.split_off(i);
            (hi, lo)
        }
    });
    match r {
        Ok((hi, lo)) => {
            let full = h % 29 == 0;
            let ok1 = check_result::<A>(ctx, &format!("{}.high", opn), &sig, &cs(), &hi, &a.bits[i..], full);
            let ok2 = check_result::<A>(ctx, &format!("{}.low", opn), &sig, &cs(), &lo, &a.bits[..i], full);
            if ok1 && ok2 {
                // appending the high part to the low part reconstructs the original
                let mut re = lo.clone();
                match guarded(|| {
                    re.append(&hi);
                    read_bits(&re)
                }) {
                    Ok(bits) => {
                        if bits != a.bits {
                            ctx.violation(&format!("{}:reappend", opn), &sig, &cs(), format!("low.append(high) gave {} instead of {}", model::to_str(&bits), model::to_str(&a.bits)));
                        }
                    }
                    Err(p) => ctx.violation(&format!("{}:reappend-panicked", opn), &sig, &cs(), p.short()),
                }
            }
        }
        Err(p) => ctx.violation(&format!("{}:unexpected-panic", opn), &sig, &cs(), format!("{}.{}({}) panicked: {}", a.describe(), opn, i, p.short())),
    }
}

fn judge_firstlast<A: Subject + AllPairs>(ctx: &mut Ctx, case: &Case, wl: &str) {
    let a = case.spec("a");
    let n = a.bits.len();
    let (av, _) = build::<A>(&a);
    let h = sig_hash(&[a.ty as u64, 803, n as u64, model::hash_bits(&a.bits), model::hash64(a.via.enc().as_bytes())]);
    ctx.eval(h, n > 0);
    if n == 0 {
        ctx.bucket("firstlast:empty");
    }
    let sig = format!("{}|first/last", type_class(a.ty));
    let cs = || Case::new("firstlast").with("a", a.enc()).enc();
    ctx.sample(wl, cs);
    match guarded(|| (av.first().map(unbit), av.last().map(unbit))) {
        Ok((f, l)) => {
            let ef = a.bits.first().copied();
            let el = a.bits.last().copied();
            if f != ef || l != el {
                ctx.violation("first/last", &sig, &cs(), format!("{}: first {:?} last {:?} ; expected {:?} {:?}", a.describe(), f, l, ef, el));
            }
        }
        Err(p) => ctx.violation("first/last:panicked", &sig, &cs(), p.short()),
    }
}

pub fn judge(ctx: &mut Ctx, case: &Case, wl: &str) {
    let ty = case.spec("a").ty;
    with_type!(ty, A, {
        match case.kind.as_str() {
            "slice" => judge_slice::<A>(ctx, case, wl),
            "split" => judge_split::<A>(ctx, case, wl),
            "firstlast" => judge_firstlast::<A>(ctx, case, wl),
            k => panic!("HARNESS-ERROR: slice cannot judge case kind {}", k),
        }
    })
}

pub fn replay(ctx: &mut Ctx, case: &Case) {
    judge(ctx, case, "replay")
}

fn positions(n: usize, w: usize, all_below: usize) -> Vec<usize> {
    if n <= all_below {
        return (0..=n).collect();
    }
    let mut v = gen::boundary_lens(w, 8, Some(n), n);
    v.push(n / 2);
    v.push(n - 1);
    v.push(n);
    v.sort();
    v.dedup();
    v
}

fn emit_all(ctx: &mut Ctx, a: &Spec, w: usize, all_below: usize, wl: &str) {
    let n = a.bits.len();
    let pos = positions(n, w, all_below);
    for s in &pos {
        for e in &pos {
            if e >= s {
                judge(ctx, &Case::new("slice").with("a", a.enc()).with("s", *s).with("e", *e), wl);
            }
        }
    }
    for i in &pos {
        for sp in [false, true] {
            judge(ctx, &Case::new("split").with("a", a.enc()).with("i", *i).with("split", sp as u8), wl);
        }
    }
    judge(ctx, &Case::new("firstlast").with("a", a.enc()), wl);
}

pub fn run(ctx: &mut Ctx) {
    let tier = ctx.tier;
    let mut rng = Rng::derive(ctx.seed, 0x0808, 0);
    // exhaustive small values
    let small = tier.pick(4, 8, 11);
    for ta in 0..NTYPES {
        let cap = TYPE_FIXED_CAP[ta].unwrap_or(usize::MAX);
        for n in 0..=small.min(cap) {
            if !ctx.mine() {
                continue;
            }
            for va in gen::all_values(n) {
                emit_all(ctx, &Spec::set(ta, va), TYPE_WORD_BITS[ta], 64, "W1-small-exhaustive");
            }
        }
    }
    // every n (thorough) / boundary n (quick) x (s,e) x lattice values, both storage modes via production paths
    for ta in 0..NTYPES {
        let w = TYPE_WORD_BITS[ta];
        let limit = TYPE_FIXED_CAP[ta].unwrap_or(tier.pick(70, 200, 260));
        let lens: Vec<usize> = if tier == Tier::Thorough { (0..=limit).collect() } else { gen::boundary_lens(w, 8, TYPE_FIXED_CAP[ta], limit) };
        for n in lens {
            let vals = gen::lattice_small(n, w, &mut rng);
            if !ctx.mine() {
                continue;
            }
            for va in &vals {
                let via = via_for(ta, &mut rng);
                emit_all(ctx, &Spec::new(ta, va.clone(), via), w, tier.pick(10, 24, 40), "W2-ranges-lattice");
                if ta == IDX_BV {
                    emit_all(ctx, &Spec::new(ta, va.clone(), Via::HeapShort), w, tier.pick(8, 16, 40), "W2-ranges-lattice");
                }
            }
        }
    }
    // long sources
    for ta in [IDX_BVD, IDX_BV] {
        for n in gen::long_lens(tier) {
            if !ctx.mine() {
                continue;
            }
            for va in gen::lattice_small(n, 64, &mut rng) {
                let a = Spec::new(ta, va, via_for(ta, &mut rng));
                emit_all(ctx, &a, 64, 0, "W-long-sources");
            }
        }
    }
    // random
    let per = tier.pick(100, 300_000, 4_000_000) / ctx.nworkers + 1;
    let mut rng = Rng::derive(ctx.seed, 0x0809, ctx.worker as u64);
    for _ in 0..per {
        let ta = rng.below(NTYPES);
        let n = gen::random_len(ta, tier.pick(100, 300, 700), &mut rng);
        let a = Spec::new(ta, gen::random_bits(n, &mut rng), via_for(ta, &mut rng));
        let s = rng.below(n + 1);
        let e = s + rng.below(n - s + 1);
        judge(ctx, &Case::new("slice").with("a", a.enc()).with("s", s).with("e", e), "W3-seeded-random");
        judge(ctx, &Case::new("split").with("a", a.enc()).with("i", rng.below(n + 1)).with("split", rng.bool() as u8), "W3-seeded-random");
    }
}

pub const REQUIRED_C08: &[&str] = &[
    "slice:empty-at-len", "slice:empty", "slice:start-word-aligned", "slice:unaligned-multi-word", "slice:to-end",
    "slice:heap-Bv-source-short-slice", "split:at-0", "split:at-len", "split:at-word-boundary", "firstlast:empty",
];
