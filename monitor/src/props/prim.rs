//! Hook-driven workloads (cargo feature `hooks` -> bva feature `verif-hooks`): the per-word-type
//! primitives `mask / cadd / csub / wmul` (C01 anchors) and the slice re-chunking primitives
//! `get_int / set_int / int_len` including the `unsafe align_to` paths (C12 anchors).
//! All user-visible verdicts elsewhere go through the public API; this only shortens the path.

use bva::verif_hooks::{IArray, IArrayMut, Integer, StaticCast};
use num_bigint::BigUint;

use crate::case::Case;
use crate::exec::guarded;
use crate::judge::sig_hash;
use crate::model::mask128;
use crate::report::{Ctx, Tier};
use crate::rng::Rng;

fn to128<I: Integer>(x: I) -> u128 {
    StaticCast::<u128>::cast_to(x)
}
fn from128<I: Integer>(x: u128) -> I {
    <I as StaticCast<u128>>::cast_from(x)
}

fn big(x: u128) -> BigUint {
    BigUint::from(x)
}

fn prim_one<I: Integer>(ctx: &mut Ctx, name: &str, kind: &str, a: u128, b: u128, c: u128, wl: &str) {
    let w = I::BITS;
    let m = mask128(w);
    let (a, b, c) = (a & m, b & m, c & m);
    let cs = || Case::new("prim").with("ty", name).with("kind", kind).with("a", a).with("b", b).with("c", c).enc();
    ctx.eval(sig_hash(&[w as u64, crate::model::hash64(kind.as_bytes()), a as u64, (a >> 64) as u64, b as u64, (b >> 64) as u64, c as u64, (c >> 64) as u64]), a != 0 || b != 0);
    ctx.sample(wl, cs);
    ctx.bucket(&format!("prim:{}:{}", kind, name));
    let modulus = BigUint::from(1u8) << w;
    let sig = format!("{}|{}", kind, name);
    match kind {
        "cadd" => {
            let r = guarded(|| {
                let mut x: I = from128(a);
                let carry = x.cadd(from128(b), from128(c));
                (to128(x), to128(carry))
            });
            let sum = big(a) + big(b) + big(c);
            let exp = ((&sum % &modulus), (&sum >> w));
            match r {
                Ok((x, carry)) => {
                    if big(x) != exp.0 || big(carry) != exp.1 {
                        ctx.violation("prim:cadd", &sig, &cs(), format!("{}: {} cadd({}, {}) -> ({}, carry {}) ; expected ({}, {})", name, a, b, c, x, carry, exp.0, exp.1));
                    }
                    if carry > 0 && a == m {
                        ctx.bucket("prim:carry-out-of-full-word");
                    }
                }
                Err(p) => ctx.violation("prim:cadd:panicked", &sig, &cs(), p.short()),
            }
        }
        "csub" => {
            let r = guarded(|| {
                let mut x: I = from128(a);
                let borrow = x.csub(from128(b), from128(c));
                (to128(x), to128(borrow))
            });
            // a - b - c + borrow * 2^w = x with 0 <= x < 2^w
            let sub = big(b) + big(c);
            let mut borrow = 0u32;
            let mut acc = big(a);
            while acc < sub {
                acc += &modulus;
                borrow += 1;
            }
            let exp = (acc - sub, borrow as u128);
            match r {
                Ok((x, bo)) => {
                    if big(x) != exp.0 || bo != exp.1 {
                        ctx.violation("prim:csub", &sig, &cs(), format!("{}: {} csub({}, {}) -> ({}, borrow {}) ; expected ({}, {})", name, a, b, c, x, bo, exp.0, exp.1));
                    }
                    if bo > 0 && a == 0 {
                        ctx.bucket("prim:borrow-from-zero-word");
                    }
                }
                Err(p) => ctx.violation("prim:csub:panicked", &sig, &cs(), p.short()),
            }
        }
        "wmul" => {
            let r = guarded(|| {
                let x: I = from128(a);
                let (lo, hi) = x.wmul(from128(b));
                (to128(lo), to128(hi))
            });
            let prod = big(a) * big(b);
            let exp = ((&prod % &modulus), (&prod >> w));
            match r {
                Ok((lo, hi)) => {
                    if big(lo) != exp.0 || big(hi) != exp.1 {
                        ctx.violation("prim:wmul", &sig, &cs(), format!("{}: {} wmul {} -> (lo {}, hi {}) ; expected ({}, {})", name, a, b, lo, hi, exp.0, exp.1));
                    }
                    if hi != 0 {
                        ctx.bucket(&format!("prim:wmul-hi-nonzero:{}", name));
                    }
                }
                Err(p) => ctx.violation("prim:wmul:panicked", &sig, &cs(), p.short()),
            }
        }
        "mask" => {
            let len = a as usize;
            match guarded(|| to128(I::mask(len))) {
                Ok(x) => {
                    let exp = mask128(len.min(w));
                    if x != exp {
                        ctx.violation("prim:mask", &sig, &cs(), format!("{}::mask({}) = {:#x} ; expected {:#x}", name, len, x, exp));
                    }
                }
                Err(p) => ctx.violation("prim:mask:panicked", &sig, &cs(), p.short()),
            }
        }
        k => panic!("HARNESS-ERROR: unknown primitive {}", k),
    }
}

fn prim_dispatch(ctx: &mut Ctx, name: &str, kind: &str, a: u128, b: u128, c: u128, wl: &str) {
    match name {
        "u8" => prim_one::<u8>(ctx, name, kind, a, b, c, wl),
        "u16" => prim_one::<u16>(ctx, name, kind, a, b, c, wl),
        "u32" => prim_one::<u32>(ctx, name, kind, a, b, c, wl),
        "u64" => prim_one::<u64>(ctx, name, kind, a, b, c, wl),
        "u128" => prim_one::<u128>(ctx, name, kind, a, b, c, wl),
        "usize" => prim_one::<usize>(ctx, name, kind, a, b, c, wl),
        n => panic!("HARNESS-ERROR: unknown word type {}", n),
    }
}

const NAMES: [&str; 6] = ["u8", "u16", "u32", "u64", "u128", "usize"];
const WIDTHS: [usize; 6] = [8, 16, 32, 64, 128, usize::BITS as usize];

fn word_atoms(w: usize, rng: &mut Rng) -> Vec<u128> {
    let m = mask128(w);
    let h = w / 2;
    let mut v = vec![0, 1, 2, 3, m, m - 1, m - 2, 1u128 << (w - 1), (1u128 << (w - 1)) - 1, (1u128 << (w - 1)) + 1, (1u128 << h) - 1, 1u128 << h, (1u128 << h) + 1, m << h & m, m >> h, 0x5555_5555_5555_5555_5555_5555_5555_5555 & m, 0xAAAA_AAAA_AAAA_AAAA_AAAA_AAAA_AAAA_AAAA & m];
    for _ in 0..4 {
        v.push(rng.u128() & m);
    }
    v.sort();
    v.dedup();
    v
}

/// C01: primitives for every word type.
pub fn run_prims(ctx: &mut Ctx) {
    let tier = ctx.tier;
    let mut rng = Rng::derive(ctx.seed, 0x9001, 0);
    // u8: complete (thorough) / all (a, b) x corner carries (quick)
    let carries: Vec<u128> = match tier {
        Tier::Tiny => vec![0, 1],
        Tier::Quick => vec![0, 1, 2, 127, 128, 254, 255],
        Tier::Thorough => (0..=255).collect(),
    };
    let step = tier.pick(17, 1, 1);
    let mut a = 0u128;
    while a <= 255 {
        if ctx.mine() {
            for b in 0..=255u128 {
                for c in &carries {
                    prim_dispatch(ctx, "u8", "cadd", a, b, *c, "hook-primitives-u8-exhaustive");
                    prim_dispatch(ctx, "u8", "csub", a, b, *c, "hook-primitives-u8-exhaustive");
                }
                prim_dispatch(ctx, "u8", "wmul", a, b, 0, "hook-primitives-u8-exhaustive");
            }
        }
        a += step;
    }
    // wider types: atom lattice^3
    for (i, name) in NAMES.iter().enumerate() {
        let w = WIDTHS[i];
        let at = word_atoms(w, &mut rng);
        let reps = tier.pick(1, 2, 12);
        for _ in 0..reps {
            let extra: Vec<u128> = (0..tier.pick(1, 4, 10)).map(|_| rng.u128() & mask128(w)).collect();
            let all: Vec<u128> = at.iter().chain(extra.iter()).copied().collect();
            for a in &all {
                if !ctx.mine() {
                    continue;
                }
                for b in &all {
                    for c in [0u128, 1, 2, mask128(w), mask128(w) - 1, extra[0]] {
                        prim_dispatch(ctx, name, "cadd", *a, *b, c, "hook-primitives-lattice");
                        prim_dispatch(ctx, name, "csub", *a, *b, c, "hook-primitives-lattice");
                    }
                    prim_dispatch(ctx, name, "wmul", *a, *b, 0, "hook-primitives-lattice");
                }
            }
        }
        if ctx.mine() {
            for len in 0..=(w + 3) {
                prim_dispatch(ctx, name, "mask", len as u128, 0, 0, "hook-primitives-mask");
            }
            for len in [usize::MAX, usize::MAX - 1, 1 << 32, 1 << 20] {
                prim_dispatch(ctx, name, "mask", len as u128, 0, 0, "hook-primitives-mask");
            }
        }
    }
}

// ------------------------------------------------------------------------------------------------
// slices
// ------------------------------------------------------------------------------------------------

fn slice_bytes<I: Integer>(s: &[I]) -> Vec<u8> {
    let sz = I::BITS / 8;
    let mut v = Vec::with_capacity(s.len() * sz);
    for x in s {
        let x = to128(*x);
        for k in 0..sz {
            v.push((x >> (8 * k)) as u8);
        }
    }
    v
}

fn le_val(bytes: &[u8], start: usize, sz: usize) -> u128 {
    let mut v = 0u128;
    for k in 0..sz {
        if let Some(b) = bytes.get(start + k) {
            v |= (*b as u128) << (8 * k);
        }
    }
    v
}

fn slice_pair<I: Integer + StaticCast<J>, J: Integer>(ctx: &mut Ctx, iname: &str, jname: &str, words: &[u128], idx: usize, set: Option<u128>, wl: &str) {
    let data: Vec<I> = words.iter().map(|w| from128::<I>(*w)).collect();
    let bytes = slice_bytes(&data);
    let sj = J::BITS / 8;
    let int_len = (bytes.len() + sj - 1) / sj;
    let cs = || {
        Case::new(if set.is_some() { "setint" } else { "getint" })
            .with("i", iname)
            .with("j", jname)
            .with("words", if words.is_empty() { "-".to_string() } else { words.iter().map(|w| w.to_string()).collect::<Vec<_>>().join(",") })
            .with("idx", idx)
            .with("v", set.unwrap_or(0))
            .enc()
    };
    ctx.eval(sig_hash(&[I::BITS as u64, J::BITS as u64, words.len() as u64, idx as u64, set.is_some() as u64, crate::model::hash64(format!("{:?}", words).as_bytes())]), !words.is_empty());
    ctx.sample(wl, cs);
    ctx.bucket(if I::BITS >= J::BITS { "slices:align_to-path" } else { "slices:assemble-path" });
    if idx >= int_len {
        ctx.bucket("slices:index-out-of-range");
    }
    let sig = format!("[{}] as {}", iname, jname);
    // int_len
    match guarded(|| IArray::int_len::<J>(data.as_slice())) {
        Ok(l) => {
            if l != int_len {
                ctx.violation("slices:int_len", &sig, &cs(), format!("int_len = {} ; expected {}", l, int_len));
            }
        }
        Err(p) => ctx.violation("slices:int_len:panicked", &sig, &cs(), p.short()),
    }
    let exp_get: Option<u128> = if idx < int_len { Some(le_val(&bytes, idx * sj, sj)) } else { None };
    match set {
        None => match guarded(|| IArray::get_int::<J>(data.as_slice(), idx).map(to128)) {
            Ok(g) => {
                if g != exp_get {
                    ctx.violation("slices:get_int", &sig, &cs(), format!("get_int({}) = {:?} ; expected {:?} (bytes {:?})", idx, g, exp_get, bytes));
                }
            }
            Err(p) => ctx.violation("slices:get_int:panicked", &sig, &cs(), p.short()),
        },
        Some(v) => {
            let v = v & mask128(J::BITS);
            let mut d2 = data.clone();
            match guarded(|| IArrayMut::set_int::<J>(d2.as_mut_slice(), idx, from128::<J>(v)).map(to128)) {
                Ok(old) => {
                    let mut nb = bytes.clone();
                    if idx < int_len {
                        for k in 0..sj {
                            if let Some(b) = nb.get_mut(idx * sj + k) {
                                *b = (v >> (8 * k)) as u8;
                            }
                        }
                    }
                    let after = slice_bytes(&d2);
                    if old != exp_get || after != nb {
                        ctx.violation("slices:set_int", &sig, &cs(), format!("set_int({}, {:#x}) returned {:?} leaving {:?} ; expected {:?} leaving {:?}", idx, v, old, after, exp_get, nb));
                    }
                }
                Err(p) => ctx.violation("slices:set_int:panicked", &sig, &cs(), p.short()),
            }
        }
    }
}

macro_rules! slice_dispatch_j {
    ($ctx:expr, $I:ty, $iname:expr, $jname:expr, $words:expr, $idx:expr, $set:expr, $wl:expr) => {
        match $jname {
            "u8" => slice_pair::<$I, u8>($ctx, $iname, "u8", $words, $idx, $set, $wl),
            "u16" => slice_pair::<$I, u16>($ctx, $iname, "u16", $words, $idx, $set, $wl),
            "u32" => slice_pair::<$I, u32>($ctx, $iname, "u32", $words, $idx, $set, $wl),
            "u64" => slice_pair::<$I, u64>($ctx, $iname, "u64", $words, $idx, $set, $wl),
            "u128" => slice_pair::<$I, u128>($ctx, $iname, "u128", $words, $idx, $set, $wl),
            // `StaticCast<usize>` is implemented for every word type but is not a supertrait of Integer
            "usize" => slice_pair::<$I, usize>($ctx, $iname, "usize", $words, $idx, $set, $wl),
            n => panic!("HARNESS-ERROR: unknown J {}", n),
        }
    };
}

fn slice_dispatch(ctx: &mut Ctx, iname: &str, jname: &str, words: &[u128], idx: usize, set: Option<u128>, wl: &str) {
    match iname {
        "u8" => slice_dispatch_j!(ctx, u8, "u8", jname, words, idx, set, wl),
        "u16" => slice_dispatch_j!(ctx, u16, "u16", jname, words, idx, set, wl),
        "u32" => slice_dispatch_j!(ctx, u32, "u32", jname, words, idx, set, wl),
        "u64" => slice_dispatch_j!(ctx, u64, "u64", jname, words, idx, set, wl),
        "u128" => slice_dispatch_j!(ctx, u128, "u128", jname, words, idx, set, wl),
        "usize" => slice_dispatch_j!(ctx, usize, "usize", jname, words, idx, set, wl),
        n => panic!("HARNESS-ERROR: unknown I {}", n),
    }
}

/// C12: slice re-chunking for all 36 (I, J) pairs, slice lengths 0..=3, every index incl. out of range.
pub fn run_slices(ctx: &mut Ctx) {
    let tier = ctx.tier;
    let mut rng = Rng::derive(ctx.seed, 0x9002, 0);
    for (ii, iname) in NAMES.iter().enumerate() {
        for (ji, jname) in NAMES.iter().enumerate() {
            if !ctx.mine() {
                continue;
            }
            let wi = WIDTHS[ii];
            let wj = WIDTHS[ji];
            for len in 0..=tier.pick(2usize, 3, 5) {
                for rep in 0..tier.pick(1, 3, 10) {
                    let words: Vec<u128> = (0..len)
                        .map(|k| match rep {
                            0 => (0x0807_0605_0403_0201_1817_1615_1413_1211u128.rotate_left(8 * k as u32)) & mask128(wi),
                            1 => mask128(wi),
                            _ => rng.u128() & mask128(wi),
                        })
                        .collect();
                    let int_len = (len * wi / 8 + wj / 8 - 1) / (wj / 8);
                    for idx in (0..=int_len + 2).chain([usize::MAX / 64, 1 << 20]) {
                        slice_dispatch(ctx, iname, jname, &words, idx, None, "hook-slice-rechunking");
                        slice_dispatch(ctx, iname, jname, &words, idx, Some(rng.u128()), "hook-slice-rechunking");
                    }
                }
            }
        }
    }
}

pub fn judge(ctx: &mut Ctx, case: &Case, wl: &str) {
    match case.kind.as_str() {
        "prim" => prim_dispatch(ctx, case.get("ty"), case.get("kind"), case.u128("a"), case.u128("b"), case.u128("c"), wl),
        "getint" | "setint" => {
            let words: Vec<u128> = if case.get("words") == "-" { vec![] } else { case.get("words").split(',').map(|w| w.parse().expect("HARNESS-ERROR: words")).collect() };
            let set = if case.kind == "setint" { Some(case.u128("v")) } else { None };
            slice_dispatch(ctx, case.get("i"), case.get("j"), &words, case.usize("idx"), set, wl)
        }
        k => panic!("HARNESS-ERROR: prim cannot judge {}", k),
    }
}
