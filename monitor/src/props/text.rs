//! C14 (formatting equals Rust's integer formatting) and C15 (parsing).

use num_bigint::BigUint;

use crate::case::{hex_dec, hex_enc, Case};
use crate::exec::guarded;
use crate::gen;
use crate::judge::*;
use crate::model::{self, Bits};
use crate::report::{Ctx, Tier};
use crate::rng::Rng;
use crate::spec::{build, read_bits, Spec, Via};
use crate::types::*;
use crate::with_type;

fn via_for(ty: usize, rng: &mut Rng) -> Via {
    let v = *rng.pick(&crate::spec::VIAS_ALL);
    match v {
        Via::Spare(_) if TYPE_FIXED_CAP[ty].is_some() => Via::Set,
        Via::Spare(_) => Via::Spare(*rng.pick(&[1usize, 64, 65, 200])),
        v => v,
    }
}

fn cs_only(a: &Spec) -> String {
    Case::new("fmt").with("a", a.enc()).with("only", "dec").enc()
}

fn judge_fmt<A: Subject + AllPairs>(ctx: &mut Ctx, case: &Case, wl: &str) {
    let a = case.spec("a");
    let (av, _) = build::<A>(&a);
    let n = a.bits.len();
    let h = sig_hash(&[A::IDX as u64, 1400, n as u64, model::hash_bits(&a.bits), model::hash64(a.via.enc().as_bytes())]);
    ctx.eval(h, !model::is_zero(&a.bits));
    let sigb = model::sig_bits(&a.bits);
    if n == 0 {
        ctx.bucket("fmt:empty-vector");
    }
    if n > 0 && sigb == 0 {
        ctx.bucket("fmt:zero-value");
    }
    if sigb > 0 && n >= 4 && (n + 3) / 4 > (sigb + 3) / 4 {
        ctx.bucket("fmt:leading-zero-nibbles");
    }
    if sigb > 128 {
        ctx.bucket("fmt:beyond-u128");
    }
    let sig = format!("{}", type_class(A::IDX));
    let cs = || Case::new("fmt").with("a", a.enc()).enc();
    ctx.sample(wl, cs);
    // the matrix is spread over the cases: each case formats one fifth of it (plus the five plain specs)
    if case.opt("only") == Some("dec") {
        // long vectors: just `{}` and `{:+#030}` (the conversion is quadratic)
        ctx.bucket("fmt:long-decimal");
        let big = model::val(&a.bits);
        let want = (format!("{}", big), format!("{:+#030}", big));
        match guarded(|| (format!("{}", av), format!("{:+#030}", av))) {
            Ok(got) => {
                if got != want {
                    ctx.violation("format-differs-from-integer", &format!("{}|dec-long", sig), &cs_only(&a), format!("format!(\"{{}}\", {} ones) has {} characters ; the integer has {} : {:?} vs {:?}", n, got.0.len(), want.0.len(), &got.0[..got.0.len().min(24)], &want.0[..24.min(want.0.len())]));
                }
            }
            Err(p) => ctx.violation("format-panicked", &sig, &cs_only(&a), p.short()),
        }
        return;
    }
    let of = if ctx.replaying { 1 } else { 5 };
    let sel = (h % of as u64) as usize;
    let oracle = model::fmt_full_oracle(&a.bits, sel, of);
    match guarded(|| crate::fmtgen::fmt_full_sel(&av, sel, of)) {
        Ok(got) => {
            for ((i, g), (_, o)) in got.iter().zip(oracle.iter()) {
                if g != o {
                    let spec = crate::fmtgen::FMT_FULL_SPECS[*i];
                    ctx.violation(
                        "format-differs-from-integer",
                        &format!("{}|{}", sig, spec.chars().filter(|c| "boxX+#".contains(*c)).collect::<String>()),
                        &cs(),
                        format!("format!(\"{}\", {}) = {:?} ; the same unsigned integer formats as {:?}", spec, a.describe(), g, o),
                    );
                    break;
                }
            }
            ctx.observer_calls += got.len() as u64;
            ctx.bucket_n("fmt:specs-formatted", got.len() as u64);
        }
        Err(p) => ctx.violation("format-panicked", &sig, &cs(), format!("formatting {} panicked: {}", a.describe(), p.short())),
    }
}

fn expect_parse(s: &str, hex: bool, cap: Option<usize>) -> (Option<Bits>, Option<usize>, bool) {
    // returns (bits if valid, index of first offending char, too_long)
    let chars: Vec<char> = s.chars().collect();
    let per = if hex { 4 } else { 1 };
    let too_long = cap.map_or(false, |c| chars.len() * per > c);
    let bad = chars.iter().position(|c| if hex { !c.is_ascii_hexdigit() } else { *c != '0' && *c != '1' });
    let bits = if bad.is_none() {
        let mut b = vec![];
        for c in chars.iter().rev() {
            let d = c.to_digit(16).unwrap();
            for i in 0..per {
                b.push((d >> i) & 1 == 1);
            }
        }
        Some(b)
    } else {
        None
    };
    (bits, bad, too_long)
}

fn judge_parse<A: Subject + AllPairs>(ctx: &mut Ctx, case: &Case, wl: &str) {
    let s = String::from_utf8(hex_dec(case.get("s"))).expect("HARNESS-ERROR: utf8");
    let hex = case.flag("hex");
    let (bits, bad, too_long) = expect_parse(&s, hex, A::FIXED_CAP);
    let nchars = s.chars().count();
    let h = sig_hash(&[A::IDX as u64, 1500 + hex as u64, model::hash64(s.as_bytes())]);
    ctx.eval(h, nchars > 0);
    let opn = if hex { "from_hex" } else { "from_binary" };
    if nchars == 0 {
        ctx.bucket("parse:empty-string");
    }
    if bad.is_some() && !too_long {
        ctx.bucket("parse:offending-char-in-fitting-string");
        if !s.is_ascii() {
            ctx.bucket("parse:non-ascii-offender");
        }
    }
    if bad.is_none() && too_long {
        ctx.bucket("parse:valid-but-too-long");
    }
    if bad.is_some() && too_long {
        ctx.bucket("parse:too-long-and-malformed(either error accepted)");
    }
    if let Some(c) = A::FIXED_CAP {
        if bad.is_none() && nchars * if hex { 4 } else { 1 } == c {
            ctx.bucket("parse:exactly-capacity");
        }
    }
    if hex && s.chars().any(|c| c.is_ascii_uppercase()) && s.chars().any(|c| c.is_ascii_lowercase()) {
        ctx.bucket("parse:mixed-case-hex");
    }
    if bits.as_ref().map_or(false, |b| !b.is_empty() && !b[b.len() - 1]) {
        ctx.bucket("parse:leading-zero-digits");
    }
    let sig = format!("{}|{}", type_class(A::IDX), opn);
    let cs = || case.enc();
    ctx.sample(wl, cs);
    if bad.is_some() && !too_long && A::FIXED_CAP.map_or(false, |c| s.len() * if hex { 4 } else { 1 } > c) {
        ctx.bucket("parse:chars-fit-but-bytes-exceed-capacity");
    }
    let r = guarded(|| if hex { A::from_hex(&s) } else { A::from_binary(&s) });
    match r {
        Ok(Ok(v)) => match (&bits, too_long) {
            (Some(b), false) => {
                check_result::<A>(ctx, opn, &sig, &cs(), &v, b, h % 7 == 0);
            }
            _ => ctx.violation(
                &format!("{}:accepted-invalid", opn),
                &sig,
                &cs(),
                format!("{}::{}({:?}) returned Ok(len {}) ; offending char at {:?}, too long: {}", A::NAME, opn, s, v.len(), bad, too_long),
            ),
        },
        Ok(Err(e)) => {
            let ok = match (bad, too_long) {
                (None, false) => false,
                (None, true) => e == ConvertionError::NotEnoughCapacity,
                // |s| is the number of characters: a string whose character count fits must name the offending index,
                // even when its UTF-8 byte length exceeds the capacity
                (Some(i), false) => e == ConvertionError::InvalidFormat(i),
                (Some(i), true) => e == ConvertionError::InvalidFormat(i) || e == ConvertionError::NotEnoughCapacity,
            };
            if ok {
                ctx.panics_expected += 1;
            } else {
                ctx.violation(
                    &format!("{}:wrong-error", opn),
                    &sig,
                    &cs(),
                    format!("{}::{}({:?}) returned Err({:?}) ; first offending char index {:?}, too long for capacity: {}", A::NAME, opn, s, e, bad, too_long),
                );
            }
        }
        Err(p) => ctx.violation(&format!("{}:panicked", opn), &sig, &cs(), format!("{}::{}({:?}) panicked: {}", A::NAME, opn, s, p.short())),
    }
}

fn judge_parsefmt<A: Subject + AllPairs>(ctx: &mut Ctx, case: &Case, wl: &str) {
    let a = case.spec("a");
    let (av, _) = build::<A>(&a);
    let h = sig_hash(&[A::IDX as u64, 1502, a.bits.len() as u64, model::hash_bits(&a.bits)]);
    ctx.eval(h, !model::is_zero(&a.bits));
    ctx.bucket("parse(format(v))");
    let sig = format!("{}|parse-format", type_class(A::IDX));
    let cs = || case.enc();
    ctx.sample(wl, cs);
    let want: BigUint = model::val(&a.bits);
    let r = guarded(|| {
        let sb = format!("{:b}", av);
        let sx = format!("{:x}", av);
        let su = format!("{:X}", av);
        let mut out = vec![];
        for (s, hex) in [(sb, false), (sx, true), (su, true)] {
            // the text of a value with more digits than a fixed capacity cannot occur: digits are minimal
            let p = if hex { A::from_hex(&s) } else { A::from_binary(&s) };
            out.push((s, p.map(|v| (model::val(&read_bits(&v)), v == av))));
        }
        out
    });
    match r {
        Ok(out) => {
            for (s, p) in out {
                match p {
                    Ok((v, eq)) => {
                        if v != want || !eq {
                            ctx.violation("parse-format:value", &sig, &cs(), format!("parsing {:?} (the text of {}) gave value {} (== original: {})", s, a.describe(), v, eq));
                        }
                    }
                    Err(e) => {
                        // hex text of a value whose length is not a multiple of 4 may need one more nibble than the capacity allows
                        let nib_over = A::FIXED_CAP.map_or(false, |c| s.len() * 4 > c && s.chars().all(|ch| ch.is_ascii_hexdigit()));
                        if nib_over && e == ConvertionError::NotEnoughCapacity {
                            ctx.bucket("parse-format:hex-text-wider-than-capacity(not asserted)");
                        } else {
                            ctx.violation("parse-format:rejected", &sig, &cs(), format!("parsing {:?} (the text of {}) failed: {:?}", s, a.describe(), e));
                        }
                    }
                }
            }
        }
        Err(p) => ctx.violation("parse-format:panicked", &sig, &cs(), p.short()),
    }
}

pub fn judge(ctx: &mut Ctx, case: &Case, wl: &str) {
    let ty = match case.kind.as_str() {
        "parse" => case.usize("ty"),
        _ => case.spec("a").ty,
    };
    with_type!(ty, A, {
        match case.kind.as_str() {
            "fmt" => judge_fmt::<A>(ctx, case, wl),
            "parse" => judge_parse::<A>(ctx, case, wl),
            "parsefmt" => judge_parsefmt::<A>(ctx, case, wl),
            k => panic!("HARNESS-ERROR: text cannot judge case kind {}", k),
        }
    })
}

pub fn replay(ctx: &mut Ctx, case: &Case) {
    judge(ctx, case, "replay")
}

fn run_c14(ctx: &mut Ctx) {
    let tier = ctx.tier;
    let mut rng = Rng::derive(ctx.seed, 0x1414, 0);
    let k = tier.pick(5, 11, 13);
    for ty in 0..NTYPES {
        let cap = TYPE_FIXED_CAP[ty].unwrap_or(usize::MAX);
        for n in 0..=k.min(cap) {
            if !ctx.mine() {
                continue;
            }
            for va in gen::all_values(n) {
                judge(ctx, &Case::new("fmt").with("a", Spec::set(ty, va).enc()), "W1-small-exhaustive");
            }
        }
        let w = TYPE_WORD_BITS[ty];
        let limit = TYPE_FIXED_CAP[ty].unwrap_or(tier.pick(140, 257, 400));
        let lens: Vec<usize> = if tier == Tier::Thorough { (0..=limit).collect() } else { gen::boundary_lens(w, 8, TYPE_FIXED_CAP[ty], limit) };
        for n in lens {
            let vals = gen::lattice(n, w, &mut rng);
            if !ctx.mine() {
                continue;
            }
            for va in &vals {
                judge(ctx, &Case::new("fmt").with("a", Spec::new(ty, va.clone(), via_for(ty, &mut rng)).enc()), "W2-word-boundary-lattice");
                // the same value at other lengths: output must be identical
                let sig = model::sig_bits(va);
                for l2 in [sig, sig + 1, sig + 3, sig + 64] {
                    if l2 <= limit {
                        let mut b = va[..sig].to_vec();
                        b.resize(l2, false);
                        judge(ctx, &Case::new("fmt").with("a", Spec::new(ty, b, via_for(ty, &mut rng)).enc()), "W-same-value-other-length");
                    }
                }
            }
        }
        // long vectors: the power-of-two radixes up to 4097 bits; decimal (quadratic) up to 777 bits
        if TYPE_FIXED_CAP[ty].is_none() && ctx.mine() {
            for n in gen::long_lens(tier) {
                if n > 800 && tier != Tier::Thorough {
                    continue;
                }
                if n > 2100 {
                    continue;
                }
                for va in gen::lattice_small(n, 64, &mut rng) {
                    judge(ctx, &Case::new("fmt").with("a", Spec::new(ty, va, via_for(ty, &mut rng)).enc()), "W-long-vectors");
                }
            }
        }
        // decimal of long values whose top bits are all set / that sit just above a power of ten, at many different
        // lengths (a digit-count estimate that is one short only fails for particular bit counts and large mantissas)
        if TYPE_FIXED_CAP[ty].is_none() {
            let lens: Vec<usize> = if tier == Tier::Thorough { (600..=2100).collect() } else { (0..tier.pick(6, 320, 0)).map(|_| 600 + rng.below(1500)).collect() };
            for n in lens {
                if !ctx.mine() {
                    continue;
                }
                judge(ctx, &Case::new("fmt").with("a", Spec::new(ty, vec![true; n], Via::Set).enc()).with("only", "dec"), "W-long-decimal");
            }
        }
        // decimal near powers of ten
        if ctx.mine() {
            let mut p = BigUint::from(1u8);
            for _ in 0..tier.pick(10, 40, 78) {
                p *= 10u8;
                for d in [-1i32, 0, 1] {
                    let v = if d < 0 { &p - 1u8 } else if d > 0 { &p + 1u8 } else { p.clone() };
                    let need = v.bits() as usize;
                    if need <= limit {
                        let l = (need + rng.below(3)).min(limit);
                        judge(ctx, &Case::new("fmt").with("a", Spec::new(ty, model::from_val(&v, l), via_for(ty, &mut rng)).enc()), "W-powers-of-ten");
                    }
                }
            }
        }
    }
    let per = tier.pick(100, 60_000, 600_000) / ctx.nworkers + 1;
    let mut rng = Rng::derive(ctx.seed, 0x1415, ctx.worker as u64);
    for _ in 0..per {
        let ty = rng.below(NTYPES);
        let n = gen::random_len(ty, tier.pick(100, 300, 600), &mut rng);
        judge(ctx, &Case::new("fmt").with("a", Spec::new(ty, gen::random_bits(n, &mut rng), via_for(ty, &mut rng)).enc()), "W3-seeded-random");
    }
}

const OFFENDERS: [&str; 14] = [" ", "2", "g", "G", "_", "+", "-", "\u{e9}", "\u{ff11}", "\u{661}", "\u{1F600}", "\0", "x", "\u{7ff}"];

fn emit_parse(ctx: &mut Ctx, ty: usize, s: &str, hex: bool, wl: &str) {
    judge(ctx, &Case::new("parse").with("ty", ty).with("s", hex_enc(s.as_bytes())).with("hex", hex as u8), wl);
}

fn run_c15(ctx: &mut Ctx) {
    let tier = ctx.tier;
    let mut rng = Rng::derive(ctx.seed, 0x1515, 0);
    const HEXD: [char; 22] = ['0', '1', '2', '3', '4', '5', '6', '7', '8', '9', 'a', 'b', 'c', 'd', 'e', 'f', 'A', 'B', 'C', 'D', 'E', 'F'];
    for ty in 0..NTYPES {
        let cap = TYPE_FIXED_CAP[ty];
        // all binary strings of length <= k, all hex strings of <= 2 (3) digits
        let k = tier.pick(5, 12, 14);
        if ctx.mine() {
            for n in 0..=k {
                for v in gen::all_values(n) {
                    let s: String = v.iter().rev().map(|b| if *b { '1' } else { '0' }).collect();
                    emit_parse(ctx, ty, &s, false, "W1-all-short-binary-strings");
                }
            }
            emit_parse(ctx, ty, "", true, "W1-all-short-hex-strings");
            for a in HEXD {
                emit_parse(ctx, ty, &a.to_string(), true, "W1-all-short-hex-strings");
                for b in HEXD {
                    emit_parse(ctx, ty, &format!("{}{}", a, b), true, "W1-all-short-hex-strings");
                    if tier != Tier::Tiny {
                        for c in HEXD {
                            emit_parse(ctx, ty, &format!("{}{}{}", a, b, c), true, "W1-all-short-hex-strings");
                        }
                    }
                }
            }
        }
        // capacity boundary (fixed) / inline boundary (Bv) / word boundaries, lattice contents
        let blens: Vec<usize> = match cap {
            Some(c) => vec![c.saturating_sub(1), c, c + 1, c + 9],
            None => vec![63, 64, 65, 127, 128, 129, 191, 192, 193, 256],
        };
        if ctx.mine() {
            for n in blens {
                for rep in 0..tier.pick(1, 12, 48) {
                    let bits = match rep {
                        0 => vec![true; n],
                        1 => vec![false; n],
                        _ => gen::random_bits(n, &mut rng),
                    };
                    let s: String = bits.iter().rev().map(|b| if *b { '1' } else { '0' }).collect();
                    emit_parse(ctx, ty, &s, false, "W2-capacity-boundary");
                    // hex: n/4 and n/4 + 1 digits
                    for nd in [n / 4, n / 4 + 1] {
                        let hs: String = (0..nd).map(|_| *rng.pick(&HEXD)).collect();
                        emit_parse(ctx, ty, &hs, true, "W2-capacity-boundary");
                    }
                }
            }
        }
        // one offending character at every position; two offenders (first index wins)
        let lens: Vec<usize> = match cap {
            Some(c) => vec![1, 2, 5, 8.min(c), c / 2, c.saturating_sub(1), c],
            None => vec![1, 2, 9, 64, 65, 127, 128, 129, 140],
        };
        for n in lens {
            if n == 0 || !ctx.mine() {
                continue;
            }
            for hex in [false, true] {
                let nd = if hex { (n / 4).max(1) } else { n };
                let positions: Vec<usize> = if tier != Tier::Tiny || nd <= 12 { (0..nd).collect() } else { vec![0, 1, nd / 2, nd - 2, nd - 1] };
                for pos in positions {
                    for off in OFFENDERS {
                        if tier == Tier::Tiny && rng.below(2) == 0 && pos != 0 && pos != nd - 1 {
                            continue;
                        }
                        if hex && off.chars().all(|c| c.is_ascii_hexdigit()) {
                            continue;
                        }
                        let mut chars: Vec<String> = (0..nd).map(|_| if hex { rng.pick(&HEXD).to_string() } else { if rng.bool() { "1".into() } else { "0".into() } }).collect();
                        chars[pos] = off.to_string();
                        emit_parse(ctx, ty, &chars.concat(), hex, "W4-offending-char-every-position");
                        if pos + 1 < nd {
                            let p2 = pos + 1 + rng.below(nd - pos - 1);
                            chars[p2] = OFFENDERS[rng.below(OFFENDERS.len())].to_string();
                            if !(hex && chars[p2].chars().all(|c| c.is_ascii_hexdigit())) {
                                emit_parse(ctx, ty, &chars.concat(), hex, "W4-two-offenders");
                            }
                        }
                    }
                }
            }
        }
        // long strings (dynamic and auto types): digit counts around multiples of 64 bits / 16 nibbles up to 4097 bits
        if cap.is_none() && ctx.mine() {
            for n in gen::long_lens(tier) {
                for rep in 0..tier.pick(1, 3, 8) {
                    let bits = match rep {
                        0 => vec![true; n],
                        1 => {
                            let mut b = vec![false; n];
                            b[0] = true;
                            b
                        }
                        _ => gen::random_bits(n, &mut rng),
                    };
                    let s: String = bits.iter().rev().map(|b| if *b { '1' } else { '0' }).collect();
                    emit_parse(ctx, ty, &s, false, "W-long-strings");
                    let nd = n / 4 + rep % 2;
                    let hs: String = (0..nd).map(|_| *rng.pick(&HEXD)).collect();
                    emit_parse(ctx, ty, &hs, true, "W-long-strings");
                    // one offending character deep inside
                    let pos = (n * 2 / 3).min(s.len() - 1);
                    let mut bad: Vec<char> = s.chars().collect();
                    bad[pos] = *rng.pick(&['2', 'x', ' ', '\u{e9}', '+']);
                    emit_parse(ctx, ty, &bad.into_iter().collect::<String>(), false, "W-long-strings");
                    if nd > 2 {
                        let mut badh: Vec<char> = hs.chars().collect();
                        let hp = nd * 2 / 3;
                        badh[hp] = *rng.pick(&['g', 'G', '_', '\u{ff11}', '+']);
                        emit_parse(ctx, ty, &badh.into_iter().collect::<String>(), true, "W-long-strings");
                    }
                    judge(ctx, &Case::new("parsefmt").with("a", Spec::new(ty, bits, via_for(ty, &mut rng)).enc()), "W-long-strings");
                }
            }
        }
        // structured base strings (zero padding of whole storage words, all-zero, all-one, alternating) with one
        // offending character in each region: an index computed relative to a stripped or chunked string shows here
        if ctx.mine() {
            for hex in [false, true] {
                let unit = if hex { 16 } else { 64 };
                let maxd = cap.map_or(unit * 4 + 9, |c| if hex { c / 4 } else { c });
                for pad in [0usize, 1, unit - 1, unit, unit + 1, 2 * unit, 2 * unit + 3] {
                    for tail in [1usize, 2, unit - 1, unit, unit + 2] {
                        let nd = pad + tail;
                        if nd > maxd || nd == 0 {
                            continue;
                        }
                        for base in 0..4 {
                            let digit = |i: usize, rng: &mut Rng| -> char {
                                if i < pad {
                                    return '0';
                                }
                                match base {
                                    0 => '0',
                                    1 => {
                                        if hex {
                                            'f'
                                        } else {
                                            '1'
                                        }
                                    }
                                    2 => {
                                        if i % 2 == 0 {
                                            '1'
                                        } else {
                                            '0'
                                        }
                                    }
                                    _ => {
                                        if hex {
                                            *rng.pick(&HEXD)
                                        } else if rng.bool() {
                                            '1'
                                        } else {
                                            '0'
                                        }
                                    }
                                }
                            };
                            let chars: Vec<char> = (0..nd).map(|i| digit(i, &mut rng)).collect();
                            emit_parse(ctx, ty, &chars.iter().collect::<String>(), hex, "W-structured-strings");
                            for pos in [0usize, pad.saturating_sub(1), pad, pad + tail / 2, nd - 1] {
                                if pos >= nd {
                                    continue;
                                }
                                let mut c2 = chars.clone();
                                c2[pos] = *rng.pick(&['x', 'z', ' ', '_', '\u{e9}', '+', '-', 'G']);
                                emit_parse(ctx, ty, &c2.iter().collect::<String>(), hex, "W-structured-strings");
                            }
                        }
                    }
                }
            }
        }
        // parse(format(v)) on lattice values
        let w = TYPE_WORD_BITS[ty];
        for n in gen::boundary_lens(w, 8, cap, tier.pick(140, 257, 400)) {
            let vals = gen::lattice(n, w, &mut rng);
            if !ctx.mine() {
                continue;
            }
            for va in vals {
                judge(ctx, &Case::new("parsefmt").with("a", Spec::new(ty, va, via_for(ty, &mut rng)).enc()), "W-parse-of-format");
            }
        }
    }
}

/// Seeded random strings: random digits, 0-2 characters replaced by arbitrary Unicode scalar values.
fn c15_random(ctx: &mut Ctx) {
    let tier = ctx.tier;
    let per = tier.pick(100, 2_000_000, 20_000_000) / ctx.nworkers + 1;
    let mut rng = Rng::derive(ctx.seed, 0x1516, ctx.worker as u64);
    const HEXD: [char; 22] = ['0', '1', '2', '3', '4', '5', '6', '7', '8', '9', 'a', 'b', 'c', 'd', 'e', 'f', 'A', 'B', 'C', 'D', 'E', 'F'];
    for _ in 0..per {
        let ty = rng.below(NTYPES);
        let hex = rng.bool();
        let capd = TYPE_FIXED_CAP[ty].map_or(if rng.chance(1, 20) { 1200 } else { 200 }, |c| if hex { c / 4 + 2 } else { c + 3 });
        let nd = if rng.chance(1, 3) { capd.saturating_sub(rng.below(4)) } else { rng.below(capd + 1) };
        let mut chars: Vec<char> = (0..nd).map(|_| if hex { *rng.pick(&HEXD) } else if rng.bool() { '1' } else { '0' }).collect();
        let nbad = [0usize, 0, 1, 1, 2][rng.below(5)];
        for _ in 0..nbad {
            if nd == 0 {
                break;
            }
            let pos = rng.below(nd);
            let c = match rng.below(4) {
                0 => (rng.below(128) as u8) as char,
                1 => char::from_u32(0x80 + rng.below(0x700) as u32).unwrap_or('\u{e9}'),
                2 => char::from_u32(0x800 + rng.below(0xD000) as u32).unwrap_or('\u{20ac}'),
                _ => char::from_u32(0x10000 + rng.below(0x10000) as u32).unwrap_or('\u{1F600}'),
            };
            if c == ' ' {
                // the case encoding is space separated but the string travels hex-encoded, so a space is fine
            }
            chars[pos] = c;
        }
        emit_parse(ctx, ty, &chars.iter().collect::<String>(), hex, "W3-seeded-random-strings");
    }
}

pub fn run(ctx: &mut Ctx) {
    match ctx.prop.as_str() {
        "C14" => run_c14(ctx),
        "C15" => {
            run_c15(ctx);
            c15_random(ctx);
        }
        p => panic!("HARNESS-ERROR: text cannot run {}", p),
    }
}

pub const REQUIRED_C14: &[&str] = &["fmt:empty-vector", "fmt:zero-value", "fmt:leading-zero-nibbles", "fmt:beyond-u128"];
pub const REQUIRED_C15: &[&str] = &[
    "parse:empty-string", "parse:offending-char-in-fitting-string", "parse:non-ascii-offender", "parse:chars-fit-but-bytes-exceed-capacity", "parse:valid-but-too-long",
    "parse:exactly-capacity", "parse:mixed-case-hex", "parse:leading-zero-digits", "parse(format(v))",
];
