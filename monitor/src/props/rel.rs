//! C09 (equality and ordering are numeric, across all types) and C10 (Hash consistent with Eq).

use std::cmp::Ordering;
use std::collections::HashSet;

use crate::battery::{default_hash, hash_stream};
use crate::case::Case;
use crate::exec::guarded;
use crate::gen;
use crate::judge::*;
use crate::model::{self, Bits};
use crate::report::{Ctx, Tier};
use crate::rng::Rng;
use crate::spec::{build, Spec, Via};
use crate::types::*;
use crate::with_type;

fn via_for(ty: usize, rng: &mut Rng) -> Via {
    let v = *rng.pick(&crate::spec::VIAS_ALL);
    match v {
        Via::Spare(_) if TYPE_FIXED_CAP[ty].is_some() => Via::Set,
        Via::Spare(_) => Via::Spare(*rng.pick(&[1usize, 64, 65, 200])),
        v => v,
    }
}

fn cmp_pair<A: Subject + Pair<B>, B: Subject>(ctx: &mut Ctx, a: &Spec, b: &Spec, wl: &str) {
    let (av, _) = build::<A>(a);
    let (bv, _) = build::<B>(b);
    let va = model::val(&a.bits);
    let vb = model::val(&b.bits);
    let truth = va.cmp(&vb);
    let h = sig_hash(&[a.ty as u64, b.ty as u64, 900, a.bits.len() as u64, b.bits.len() as u64, model::hash_bits(&a.bits), model::hash_bits(&b.bits), model::hash64(a.via.enc().as_bytes()), model::hash64(b.via.enc().as_bytes())]);
    ctx.eval(h, !(a.bits.is_empty() && b.bits.is_empty()));
    ctx.type_pairs.insert((a.ty as u8, b.ty as u8));
    if truth == Ordering::Equal && a.bits.len() != b.bits.len() {
        ctx.bucket("equal-value-different-length");
    }
    if truth != Ordering::Equal {
        // differ only in the top word of the longer operand?
        let w = 64;
        let top = a.bits.len().max(b.bits.len());
        if top > w {
            let cut = (top - 1) / w * w;
            let la: Bits = a.bits.iter().take(cut).copied().collect();
            let lb: Bits = b.bits.iter().take(cut).copied().collect();
            if model::val(&la) == model::val(&lb) {
                ctx.bucket("differ-only-in-top-word");
            }
        }
    }
    if a.bits.is_empty() || b.bits.is_empty() {
        ctx.bucket("empty-operand");
    }
    let sig = format!("{}|{}", type_class(a.ty), type_class(b.ty));
    let cs = || Case::new("cmp").with("a", a.enc()).with("b", b.enc()).enc();
    ctx.sample(wl, cs);
    match guarded(|| <A as Pair<B>>::cmp_all(&av, &bv)) {
        Ok(o) => {
            let want = CmpObs {
                eq: truth == Ordering::Equal,
                ne: truth != Ordering::Equal,
                lt: truth == Ordering::Less,
                le: truth != Ordering::Greater,
                gt: truth == Ordering::Greater,
                ge: truth != Ordering::Less,
                partial: Some(truth),
            };
            if o != want {
                ctx.violation(
                    "comparison-disagrees-with-numeric-order",
                    &sig,
                    &cs(),
                    format!("{} vs {}: bva says {:?} ; values compare {:?} so every operator should say {:?}", a.describe(), b.describe(), o, truth, want),
                );
            }
        }
        Err(p) => ctx.violation("comparison-panicked", &sig, &cs(), format!("{} vs {}: {}", a.describe(), b.describe(), p.short())),
    }
}

fn ord_same<A: Subject>(ctx: &mut Ctx, a: &Spec, b: &Spec) {
    // Ord::cmp exists only within one type
    let (av, _) = build::<A>(a);
    let (bv, _) = build::<A>(b);
    let truth = model::val(&a.bits).cmp(&model::val(&b.bits));
    let sig = format!("{}|Ord", type_class(a.ty));
    let cs = Case::new("cmp").with("a", a.enc()).with("b", b.enc()).enc();
    match guarded(|| (av.cmp(&bv), bv.cmp(&av), av.cmp(&av), std::cmp::max(av.clone(), bv.clone()) >= av)) {
        Ok((c1, c2, c3, mx)) => {
            ctx.bucket("Ord::cmp");
            if c1 != truth || c2 != truth.reverse() || c3 != Ordering::Equal || !mx {
                ctx.violation("Ord-disagrees", &sig, &cs, format!("{} cmp {}: {:?} / reversed {:?} / self {:?} / max>=a {} ; numeric {:?}", a.describe(), b.describe(), c1, c2, c3, mx, truth));
            }
        }
        Err(p) => ctx.violation("Ord-panicked", &sig, &cs, p.short()),
    }
}

fn judge_cmp(ctx: &mut Ctx, case: &Case, wl: &str) {
    let a = case.spec("a");
    let b = case.spec("b");
    with_type!(a.ty, A, {
        with_type!(b.ty, B, { cmp_pair::<A, B>(ctx, &a, &b, wl) });
        if a.ty == b.ty {
            ord_same::<A>(ctx, &a, &b);
        }
    })
}

fn judge_hash<A: Subject + AllPairs>(ctx: &mut Ctx, case: &Case, wl: &str) {
    let a = case.spec("a");
    let b = case.spec("b");
    let (av, _) = build::<A>(&a);
    let (bv, _) = build::<A>(&b);
    let numeric_eq = model::val(&a.bits) == model::val(&b.bits);
    let h = sig_hash(&[a.ty as u64, 1000, a.bits.len() as u64, b.bits.len() as u64, model::hash_bits(&a.bits), model::hash_bits(&b.bits), model::hash64(a.via.enc().as_bytes()), model::hash64(b.via.enc().as_bytes())]);
    let sig = format!("{}", type_class(a.ty));
    let cs = || Case::new("hash").with("a", a.enc()).with("b", b.enc()).enc();
    let r = guarded(|| {
        let eq = av == bv;
        let s1 = hash_stream(&av);
        let s2 = hash_stream(&bv);
        let d1 = default_hash(&av);
        let d2 = default_hash(&bv);
        let mut set = HashSet::new();
        set.insert(av.clone());
        let found = set.contains(&bv);
        (eq, s1 == s2, d1 == d2, found, s1, s2)
    });
    match r {
        Ok((eq, same_stream, same_default, found, s1, s2)) => {
            if eq != numeric_eq {
                ctx.bucket("eq-disagrees-with-numeric(not judged by C10)");
            }
            if !eq {
                ctx.bucket("negative-control-unequal-pair");
                ctx.eval(h, false);
                return;
            }
            ctx.eval(h, a.bits != b.bits || a.via != b.via);
            ctx.sample(wl, cs);
            if a.bits.len() != b.bits.len() {
                ctx.bucket("equal-value-different-length");
            } else {
                ctx.bucket("equal-value-same-length");
            }
            if let (Some(x), Some(y)) = (av.is_heap(), bv.is_heap()) {
                if x != y {
                    ctx.bucket("Bv-inline-vs-heap");
                }
            }
            if av.capacity() != bv.capacity() {
                ctx.bucket("different-capacity");
            }
            if !same_stream || !same_default || !found {
                ctx.violation(
                    "equal-but-hash-differs",
                    &sig,
                    &cs(),
                    format!(
                        "{} == {} but: identical Hasher input {} ({} vs {} recorded bytes), DefaultHasher equal {}, HashSet lookup finds it {}",
                        a.describe(),
                        b.describe(),
                        same_stream,
                        s1.len(),
                        s2.len(),
                        same_default,
                        found
                    ),
                );
            }
        }
        Err(p) => ctx.violation("hash-panicked", &sig, &cs(), p.short()),
    }
}

pub fn judge(ctx: &mut Ctx, case: &Case, wl: &str) {
    match case.kind.as_str() {
        "cmp" => judge_cmp(ctx, case, wl),
        "hash" => {
            let ty = case.spec("a").ty;
            with_type!(ty, A, { judge_hash::<A>(ctx, case, wl) })
        }
        k => panic!("HARNESS-ERROR: rel cannot judge case kind {}", k),
    }
}

pub fn replay(ctx: &mut Ctx, case: &Case) {
    judge(ctx, case, "replay")
}

/// A pool built to collide: the same numeric values at different lengths in all types, values
/// differing in one bit / one word, zero at every length.
fn collision_pool(rng: &mut Rng, size: usize, max_len: usize) -> Vec<Spec> {
    let mut pool = vec![];
    // a few base values
    let base_len = *rng.pick(&[0usize, 1, 5, 8, 9, 16, 24, 63, 64, 65, 127, 128, 129, 191, 200]);
    let base_len = base_len.min(max_len);
    let w = *rng.pick(&[8usize, 16, 32, 64, 128]);
    let mut values: Vec<Bits> = vec![vec![], gen::random_bits(base_len, rng)];
    let lat = gen::lattice(base_len, w, rng);
    for _ in 0..3 {
        values.push(rng.pick(&lat).clone());
    }
    // neighbours: one bit flipped, plus/minus one
    let b0 = values[1].clone();
    if !b0.is_empty() {
        let mut x = b0.clone();
        let i = rng.below(x.len());
        x[i] = !x[i];
        values.push(x);
        let mut x = b0.clone();
        let l = x.len();
        x[l - 1] = !x[l - 1];
        values.push(x);
        let mut x = b0.clone();
        x[0] = !x[0];
        values.push(x);
    }
    while pool.len() < size {
        let v = rng.pick(&values).clone();
        let sig = model::sig_bits(&v);
        let ty = rng.below(NTYPES);
        let cap = TYPE_FIXED_CAP[ty].unwrap_or(max_len + 70);
        if sig > cap {
            continue;
        }
        // any length from sig bits up to cap (zero-extended)
        let len = match rng.below(4) {
            0 => sig,
            1 => cap.min(sig + 64),
            2 => cap.min(((sig / 64) + 1) * 64),
            _ => sig + rng.below(cap - sig + 1).min(130),
        };
        let mut bits = v[..sig].to_vec();
        bits.resize(len, false);
        pool.push(Spec::new(ty, bits, via_for(ty, rng)));
    }
    pool
}

fn run_c09(ctx: &mut Ctx) {
    let tier = ctx.tier;
    // W1: all values at n, m <= k across all pairs
    let k = tier.pick(2, 4, 5);
    for ta in 0..NTYPES {
        for tb in 0..NTYPES {
            if !ctx.mine() {
                continue;
            }
            for n in 0..=k {
                for m in 0..=k {
                    for va in gen::all_values(n) {
                        for vb in gen::all_values(m) {
                            judge(ctx, &Case::new("cmp").with("a", Spec::set(ta, va.clone()).enc()).with("b", Spec::set(tb, vb).enc()), "W1-small-exhaustive");
                        }
                    }
                }
            }
        }
    }
    // collision pools: full matrix
    let pools = tier.pick(3, 20_000, 150_000) / ctx.nworkers + 1;
    let mut rng = Rng::derive(ctx.seed, 0x0909, ctx.worker as u64);
    for _ in 0..pools {
        let pool = collision_pool(&mut rng, tier.pick(12, 28, 40), 200);
        ctx.bucket("pools");
        for x in &pool {
            for y in &pool {
                judge(ctx, &Case::new("cmp").with("a", x.enc()).with("b", y.enc()), "W-collision-pools");
            }
        }
    }
    w_low_part_equal(ctx);
    // long operands of the dynamic and auto types: equal, differing in one bit at either end or in the middle, one word longer
    {
        let mut rng = Rng::derive(ctx.seed, 0x090C, 0);
        for ta in [IDX_BVD, IDX_BV] {
            for tb in [IDX_BVD, IDX_BV, 11usize] {
                for n in gen::long_lens(tier) {
                    if !ctx.mine() {
                        continue;
                    }
                    for va in gen::lattice_small(n, 64, &mut rng) {
                        let a = Spec::new(ta, va.clone(), via_for(ta, &mut rng));
                        let capb = TYPE_FIXED_CAP[tb].unwrap_or(usize::MAX);
                        let mut variants: Vec<Bits> = vec![va.clone()];
                        for pos in [0usize, n / 2, n - 1, (n - 1) / 64 * 64] {
                            let mut v = va.clone();
                            v[pos] = !v[pos];
                            variants.push(v);
                        }
                        let mut longer = va.clone();
                        longer.resize(n + 64, false);
                        variants.push(longer.clone());
                        longer[n + 63] = true;
                        variants.push(longer);
                        for vb in variants {
                            if vb.len() > capb {
                                continue;
                            }
                            let b = Spec::new(tb, vb, via_for(tb, &mut rng));
                            judge(ctx, &Case::new("cmp").with("a", a.enc()).with("b", b.enc()), "W-long-operands");
                            judge(ctx, &Case::new("cmp").with("a", b.enc()).with("b", a.enc()), "W-long-operands");
                        }
                    }
                }
            }
        }
    }
    // lattice across pairs, lengths differing by whole words
    let mut rng = Rng::derive(ctx.seed, 0x090A, 0);
    for ta in 0..NTYPES {
        for tb in 0..NTYPES {
            if !ctx.mine() {
                continue;
            }
            let wa = TYPE_WORD_BITS[ta];
            for n in gen::boundary_lens(wa, TYPE_WORD_BITS[tb], TYPE_FIXED_CAP[ta], 200) {
                if tier == Tier::Tiny && rng.below(3) != 0 {
                    continue;
                }
                let vals = gen::lattice_small(n, wa, &mut rng);
                for va in &vals {
                    for d in [0usize, 1, 64, 128] {
                        let m = n + d;
                        if TYPE_FIXED_CAP[tb].map_or(false, |c| m > c) {
                            continue;
                        }
                        // same value zero-extended, and the value with one more high bit
                        let mut vb = va.clone();
                        vb.resize(m, false);
                        let a = Spec::new(ta, va.clone(), via_for(ta, &mut rng));
                        judge(ctx, &Case::new("cmp").with("a", a.enc()).with("b", Spec::new(tb, vb.clone(), via_for(tb, &mut rng)).enc()), "W2-word-boundary-lattice");
                        if m > 0 {
                            let mut vb2 = vb.clone();
                            vb2[m - 1] = !vb2[m - 1];
                            judge(ctx, &Case::new("cmp").with("a", a.enc()).with("b", Spec::new(tb, vb2, via_for(tb, &mut rng)).enc()), "W2-word-boundary-lattice");
                        }
                    }
                }
            }
        }
    }
}

/// Pairs that agree on all low storage words and differ only above a word boundary of either
/// operand's word size: x of type `ta` against its own truncation at every such boundary held in
/// type `tb`, in both operand orders. (A comparison that stops one word early says "equal".)
fn w_low_part_equal(ctx: &mut Ctx) {
    let tier = ctx.tier;
    let mut rng = Rng::derive(ctx.seed, 0x090B, 0);
    for ta in 0..NTYPES {
        for tb in 0..NTYPES {
            if !ctx.mine() {
                continue;
            }
            let wa = TYPE_WORD_BITS[ta];
            let wb = TYPE_WORD_BITS[tb];
            let capa = TYPE_FIXED_CAP[ta].unwrap_or(260);
            let capb = TYPE_FIXED_CAP[tb].unwrap_or(260);
            let mut cuts: Vec<usize> = vec![];
            for w in [wa, wb, 8, 64] {
                let mut c = w;
                while c < capa {
                    cuts.push(c);
                    c += w;
                }
            }
            cuts.sort();
            cuts.dedup();
            for cut in cuts {
                if cut > capb {
                    continue;
                }
                for rep in 0..tier.pick(1, 3, 10) {
                    // x: random low part, something non-zero above the cut
                    let n = match rep {
                        0 => capa,
                        1 => (cut + 1).min(capa),
                        _ => cut + 1 + rng.below(capa - cut),
                    };
                    let mut x = gen::random_bits(n, &mut rng);
                    let hi = cut + rng.below(n - cut);
                    x[hi] = true;
                    if rep % 2 == 1 {
                        for b in x[cut..].iter_mut() {
                            *b = false;
                        }
                        x[hi] = true;
                    }
                    let y: Bits = x[..cut].to_vec();
                    // y at its own length and zero-extended to tb's capacity / x's length
                    for ylen in [cut, capb.min(n), capb.min(cut + 64)] {
                        let mut yb = y.clone();
                        yb.resize(ylen.max(cut), false);
                        let a = Spec::new(ta, x.clone(), via_for(ta, &mut rng));
                        let b = Spec::new(tb, yb, via_for(tb, &mut rng));
                        ctx.bucket("low-words-equal-high-words-differ");
                        judge(ctx, &Case::new("cmp").with("a", a.enc()).with("b", b.enc()), "W-low-part-equal");
                        judge(ctx, &Case::new("cmp").with("a", b.enc()).with("b", a.enc()), "W-low-part-equal");
                    }
                }
            }
        }
    }
}

fn run_c10(ctx: &mut Ctx) {
    let tier = ctx.tier;
    let mut rng = Rng::derive(ctx.seed, 0x1010, 0);
    // per type: equal-valued vectors at every pair of lengths (small), all production paths
    for ty in 0..NTYPES {
        let cap = TYPE_FIXED_CAP[ty].unwrap_or(tier.pick(140, 200, 300));
        let w = TYPE_WORD_BITS[ty];
        let lens = gen::boundary_lens(w, 8, Some(cap), cap);
        for sigl in &lens {
            if !ctx.mine() {
                continue;
            }
            let vals = gen::lattice_small(*sigl, w, &mut rng);
            for v in &vals {
                let sig = model::sig_bits(v);
                let ok_lens: Vec<usize> = lens.iter().copied().filter(|l| *l >= sig).collect();
                for l1 in &ok_lens {
                    for l2 in &ok_lens {
                        if tier == Tier::Tiny && rng.below(3) != 0 && l1 != l2 {
                            continue;
                        }
                        let mut b1 = v[..sig].to_vec();
                        b1.resize(*l1, false);
                        let mut b2 = v[..sig].to_vec();
                        b2.resize(*l2, false);
                        let a = Spec::new(ty, b1, via_for(ty, &mut rng));
                        let b = Spec::new(ty, b2.clone(), via_for(ty, &mut rng));
                        judge(ctx, &Case::new("hash").with("a", a.enc()).with("b", b.enc()), "W-equal-value-pairs");
                        // negative control: flip one bit
                        if *l2 > 0 && rng.below(4) == 0 {
                            let mut b3 = b2;
                            let i = rng.below(*l2);
                            b3[i] = !b3[i];
                            judge(ctx, &Case::new("hash").with("a", a.enc()).with("b", Spec::new(ty, b3, Via::Set).enc()), "W-negative-controls");
                        }
                    }
                }
            }
        }
    }
    // Bv: same value inline vs heap vs spare capacity, every production path pair
    for n in [0usize, 1, 8, 63, 64, 65, 100, 127, 128] {
        if !ctx.mine() {
            continue;
        }
        for _ in 0..tier.pick(1, 12, 400) {
            let v = gen::random_bits(n, &mut rng);
            for v1 in crate::spec::VIAS_ALL {
                for v2 in crate::spec::VIAS_ALL {
                    for ty in [IDX_BV, IDX_BVD] {
                        let a = Spec::new(ty, v.clone(), v1);
                        let b = Spec::new(ty, v.clone(), v2);
                        judge(ctx, &Case::new("hash").with("a", a.enc()).with("b", b.enc()), "W-storage-modes");
                    }
                }
            }
        }
    }
    // seeded random: value, two lengths >= its significant bits, two production paths
    {
        let per = tier.pick(100, 6_000_000, 40_000_000) / ctx.nworkers + 1;
        let mut rng = Rng::derive(ctx.seed, 0x1011, ctx.worker as u64);
        for _ in 0..per {
            let ty = rng.below(NTYPES);
            let cap = TYPE_FIXED_CAP[ty].unwrap_or(tier.pick(200, 400, 1100));
            let sig = if rng.chance(1, 8) { 0 } else { rng.below(cap + 1) };
            let mut v = gen::random_bits(sig, &mut rng);
            if sig > 0 {
                v[sig - 1] = true;
            }
            let l1 = sig + rng.below(cap - sig + 1);
            let l2 = if rng.chance(1, 3) { l1 } else { sig + rng.below(cap - sig + 1) };
            let mut b1 = v.clone();
            b1.resize(l1, false);
            let mut b2 = v.clone();
            b2.resize(l2, false);
            let a = Spec::new(ty, b1, via_for(ty, &mut rng));
            let b = Spec::new(ty, b2, via_for(ty, &mut rng));
            judge(ctx, &Case::new("hash").with("a", a.enc()).with("b", b.enc()), "W3-seeded-random");
        }
    }
    // all small values, all length pairs
    let k = tier.pick(3, 8, 10);
    for ty in 0..NTYPES {
        if !ctx.mine() {
            continue;
        }
        for n in 0..=k.min(TYPE_FIXED_CAP[ty].unwrap_or(99)) {
            for va in gen::all_values(n) {
                let sig = model::sig_bits(&va);
                for l2 in sig..=(k + 2).min(TYPE_FIXED_CAP[ty].unwrap_or(99)) {
                    let mut b2 = va[..sig].to_vec();
                    b2.resize(l2, false);
                    judge(ctx, &Case::new("hash").with("a", Spec::set(ty, va.clone()).enc()).with("b", Spec::set(ty, b2).enc()), "W1-small-exhaustive");
                }
            }
        }
    }
}

pub fn run(ctx: &mut Ctx) {
    match ctx.prop.as_str() {
        "C09" => run_c09(ctx),
        "C10" => run_c10(ctx),
        p => panic!("HARNESS-ERROR: rel cannot run {}", p),
    }
}

pub const REQUIRED_C09: &[&str] = &["low-words-equal-high-words-differ", "equal-value-different-length", "differ-only-in-top-word", "empty-operand", "Ord::cmp", "pools"];
pub const REQUIRED_C10: &[&str] = &["equal-value-different-length", "equal-value-same-length", "Bv-inline-vs-heap", "different-capacity", "negative-control-unequal-pair"];
