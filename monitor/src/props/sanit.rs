//! Reduced workload for the sanitizer builds (Miri, valgrind memcheck): everything that reaches
//! the one `unsafe` site of bva (`align_to` / `align_to_mut` in the slice `get_int` / `set_int`,
//! src/utils.rs) - conversions between implementations, mixed-type comparisons, append / prepend /
//! insert with mixed operands, `Bv`'s hash, integer conversions, division (converts the divisor),
//! plus the hook-driven slice primitives themselves and a few full histories. Cases are judged by
//! the ordinary monitors; the sanitizer adds the memory-safety / UB verdict on the same executions.

use crate::case::Case;
use crate::gen;
use crate::history::{enc_steps, gen_step, Mode, Step};
use crate::model::Op;
use crate::report::{Ctx, Tier};
use crate::rng::Rng;
use crate::spec::{Spec, Via, VIAS_BASIC};
use crate::types::*;

use super::{arith, conv, hist, rel};

fn via_for(ty: usize, rng: &mut Rng) -> Via {
    let v = *rng.pick(&VIAS_BASIC);
    match v {
        Via::Spare(_) if TYPE_FIXED_CAP[ty].is_some() => Via::Set,
        Via::Spare(_) => Via::Spare(*rng.pick(&[1usize, 64, 65])),
        v => v,
    }
}

pub fn judge(ctx: &mut Ctx, case: &Case, wl: &str) {
    match case.kind.as_str() {
        "conv" | "rebuild" | "fromuint" | "touint" | "fromslice" | "getint" | "setint" => conv::judge(ctx, case, wl),
        "cmp" | "hash" => rel::judge(ctx, case, wl),
        "history" | "edit2" | "growth" => hist::judge(ctx, case, wl),
        "binop" | "divrem" | "binuint" => arith::judge(ctx, case, wl),
        k => panic!("HARNESS-ERROR: sanit cannot judge {}", k),
    }
}

pub fn replay(ctx: &mut Ctx, case: &Case) {
    judge(ctx, case, "replay")
}

pub fn run(ctx: &mut Ctx) {
    let tier = ctx.tier;
    let mut rng = Rng::derive(ctx.seed, 0x5A17, 0);
    let lens_for = |ty: usize, rng: &mut Rng| -> Vec<usize> {
        let cap = TYPE_FIXED_CAP[ty].unwrap_or(140);
        let mut v = vec![cap, rng.below(cap + 1)];
        if tier != Tier::Tiny {
            v.extend([0usize, 1, cap / 2 + 1]);
            v.extend([7, 8, 9, cap.saturating_sub(1), 63.min(cap), 64.min(cap), 65.min(cap)]);
        }
        v.retain(|x| *x <= cap);
        v.sort();
        v.dedup();
        v
    };
    // 1. hook-driven slice primitives (the unsafe block itself)
    #[cfg(feature = "hooks")]
    crate::props::prim::run_slices(ctx);
    // 2. every ordered pair: conversion, comparison, append/prepend/insert, arithmetic, division
    for ta in 0..NTYPES {
        for tb in 0..NTYPES {
            if !ctx.mine() {
                continue;
            }
            for n in lens_for(ta, &mut rng) {
                let a = Spec::new(ta, gen::random_bits(n, &mut rng), via_for(ta, &mut rng));
                judge(ctx, &Case::new("conv").with("a", a.enc()).with("to", tb), "sanitizer-subset:conversions");
                let capb = TYPE_FIXED_CAP[tb].unwrap_or(140);
                let m = rng.below(capb + 1);
                let b = Spec::new(tb, gen::random_bits(m, &mut rng), via_for(tb, &mut rng));
                judge(ctx, &Case::new("cmp").with("a", a.enc()).with("b", b.enc()), "sanitizer-subset:comparisons");
                let room = TYPE_FIXED_CAP[ta].map_or(200, |c| c - n);
                let mut sb = b.clone();
                sb.bits.truncate(room);
                for st in [Step::Append(sb.clone()), Step::Prepend(sb.clone()), Step::Insert(n / 2, sb.clone())] {
                    judge(ctx, &Case::new("edit2").with("a", a.enc()).with("step", st.enc()), "sanitizer-subset:splices");
                }
                let op = [Op::Add, Op::Sub, Op::Mul, Op::And, Op::Or, Op::Xor][rng.below(6)];
                let form = ALL_FORMS[rng.below(6)];
                judge(ctx, &Case::new("binop").with("a", a.enc()).with("b", b.enc()).with("op", op.name()).with("form", form.name()), "sanitizer-subset:operators");
                judge(ctx, &Case::new("divrem").with("a", a.enc()).with("b", b.enc()), "sanitizer-subset:division");
            }
        }
        if !ctx.mine() {
            continue;
        }
        // 3. per type: hash pairs, integer conversions, slices, rebuild, a history
        for n in lens_for(ta, &mut rng) {
            let bits = gen::random_bits(n, &mut rng);
            let a = Spec::new(ta, bits.clone(), via_for(ta, &mut rng));
            let b = Spec::new(ta, bits.clone(), via_for(ta, &mut rng));
            judge(ctx, &Case::new("hash").with("a", a.enc()).with("b", b.enc()), "sanitizer-subset:hash");
            judge(ctx, &Case::new("rebuild").with("a", a.enc()), "sanitizer-subset:rebuild");
            for uty in ALL_UTY {
                judge(ctx, &Case::new("touint").with("a", a.enc()).with("uty", uty.name()).with("ref", (n % 2) as u8), "sanitizer-subset:integers");
                judge(ctx, &Case::new("fromuint").with("ty", ta).with("x", uty.make(rng.u128()).enc()).with("ref", (n % 2) as u8), "sanitizer-subset:integers");
                let vals: Vec<String> = (0..rng.below(4)).map(|_| (rng.u128() & uty.max()).to_string()).collect();
                let vs = if vals.is_empty() { "-".to_string() } else { vals.join(",") };
                judge(ctx, &Case::new("fromslice").with("ty", ta).with("uty", uty.name()).with("vals", vs), "sanitizer-subset:integers");
            }
            judge(ctx, &Case::new("binuint").with("a", a.enc()).with("x", UInt::U64(rng.next()).enc()).with("op", "add").with("form", "ar"), "sanitizer-subset:operators");
        }
        let histories = tier.pick(1, 6, 60);
        for _ in 0..histories {
            let n0 = gen::random_len(ta, 140, &mut rng);
            let init = Spec::new(ta, gen::random_bits(n0, &mut rng), via_for(ta, &mut rng));
            let mut steps = vec![];
            let mut m = init.bits.clone();
            for _ in 0..tier.pick(4, 10, 25) {
                let st = gen_step(ta, m.len(), Mode::All, 200, &mut rng);
                crate::with_type!(ta, A, {
                    let mut m2 = m.clone();
                    if crate::history::apply_model::<A>(&mut m2, &st) != crate::history::Ret::Skipped {
                        m = m2;
                    }
                });
                steps.push(st);
            }
            judge(ctx, &Case::new("history").with("a", init.enc()).with("steps", enc_steps(&steps)), "sanitizer-subset:histories");
        }
    }
}

pub const REQUIRED_SANIT: &[&str] = &[];
