//! C16 (bit-count queries) and C17 (bit iterators behave like slice iterators).

use crate::case::Case;
use crate::exec::guarded;
use crate::gen;
use crate::judge::*;
use crate::model::{self, Bits};
use crate::report::{Ctx, Tier};
use crate::rng::Rng;
use crate::spec::{build, snap, Spec, Via};
use crate::types::*;
use crate::with_type;

fn via_for(ty: usize, rng: &mut Rng) -> Via {
    let v = *rng.pick(&crate::spec::VIAS_ALL);
    match v {
        Via::Spare(_) if TYPE_FIXED_CAP[ty].is_some() => Via::Set,
        Via::Spare(_) => Via::Spare(*rng.pick(&[1usize, 64, 65, 200])),
        v => v,
    }
}

fn judge_counts<A: Subject + AllPairs>(ctx: &mut Ctx, case: &Case, wl: &str) {
    let a = case.spec("a");
    let (av, _) = build::<A>(&a);
    let n = a.bits.len();
    let w = A::WORD_BITS;
    let h = sig_hash(&[A::IDX as u64, 1600, n as u64, model::hash_bits(&a.bits), model::hash64(a.via.enc().as_bytes())]);
    ctx.eval(h, n > 0);
    let exp = (
        model::leading_zeros(&a.bits),
        model::leading_ones(&a.bits),
        model::trailing_zeros(&a.bits),
        model::trailing_ones(&a.bits),
        model::sig_bits(&a.bits),
        model::is_zero(&a.bits),
    );
    if n == 0 {
        ctx.bucket("counts:empty");
    }
    if n > 0 && n % w == 0 {
        ctx.bucket("counts:len-multiple-of-word");
    }
    for r in [exp.0, exp.1, exp.2, exp.3] {
        if r > 0 && r < n {
            if r % w == 0 {
                ctx.bucket("counts:run-ends-at-word-boundary");
            } else if r % w == 1 {
                ctx.bucket("counts:run-ends-one-after-boundary");
            } else if r % w == w - 1 {
                ctx.bucket("counts:run-ends-one-before-boundary");
            }
            if r > w {
                ctx.bucket("counts:run-spans-several-words");
            }
        }
        if r == n && n > 0 {
            ctx.bucket("counts:uniform-vector");
        }
    }
    if matches!(a.via, Via::Spare(_) | Via::HeapShort) && A::FIXED_CAP.is_none() {
        ctx.bucket("counts:spare-capacity");
    }
    let sig = format!("{}", type_class(A::IDX));
    let cs = || Case::new("counts").with("a", a.enc()).enc();
    ctx.sample(wl, cs);
    match guarded(|| (av.leading_zeros(), av.leading_ones(), av.trailing_zeros(), av.trailing_ones(), av.significant_bits(), av.is_zero())) {
        Ok(got) => {
            if got != exp {
                let names = ["leading_zeros", "leading_ones", "trailing_zeros", "trailing_ones", "significant_bits", "is_zero"];
                let g = [got.0, got.1, got.2, got.3, got.4, got.5 as usize];
                let e = [exp.0, exp.1, exp.2, exp.3, exp.4, exp.5 as usize];
                let first = (0..6).find(|i| g[*i] != e[*i]).unwrap();
                ctx.violation(
                    "bit-count-query",
                    &format!("{}|{}", sig, names[first]),
                    &cs(),
                    format!("{}: (lz, lo, tz, to, sig, is_zero) = {:?} ; the bits say {:?}", a.describe(), got, exp),
                );
            }
            if got.0 + got.4 != n || got.5 != (got.4 == 0) {
                ctx.violation("bit-count-relations", &sig, &cs(), format!("lz {} + significant_bits {} != len {} or is_zero {} inconsistent", got.0, got.4, n, got.5));
            }
        }
        Err(p) => ctx.violation("bit-count-query:panicked", &sig, &cs(), format!("{}: {}", a.describe(), p.short())),
    }
}

// ------------------------------------------------------------------------------------------------
// C17
// ------------------------------------------------------------------------------------------------

/// One iterator call. Arguments are symbolic so that they stay hostile relative to the iterator's
/// current position: resolved against the model iterator's remaining length `r` and the number of
/// items consumed from the front `s`.
#[derive(Clone, Copy, Debug, PartialEq, Eq)]
pub enum Arg {
    K(usize),
    /// r + d
    Rem(i8),
    /// usize::MAX - d
    Max(u8),
    /// usize::MAX - s + d  (start + n wraps to exactly d)
    MaxMinusStart(i8),
}

impl Arg {
    fn enc(self) -> String {
        match self {
            Arg::K(k) => format!("{}", k),
            Arg::Rem(d) => format!("r{:+}", d),
            Arg::Max(d) => format!("M-{}", d),
            Arg::MaxMinusStart(d) => format!("S{:+}", d),
        }
    }
    fn dec(s: &str) -> Option<Arg> {
        if let Some(x) = s.strip_prefix('r') {
            return x.parse().ok().map(Arg::Rem);
        }
        if let Some(x) = s.strip_prefix("M-") {
            return x.parse().ok().map(Arg::Max);
        }
        if let Some(x) = s.strip_prefix('S') {
            return x.parse().ok().map(Arg::MaxMinusStart);
        }
        s.parse().ok().map(Arg::K)
    }
    fn resolve(self, r: usize, s: usize) -> usize {
        match self {
            Arg::K(k) => k,
            Arg::Rem(d) => (r as i64 + d as i64).max(0) as usize,
            Arg::Max(d) => usize::MAX - d as usize,
            Arg::MaxMinusStart(d) => (usize::MAX - s).wrapping_add(d as i64 as usize),
        }
    }
}

#[derive(Clone, Copy, Debug, PartialEq, Eq)]
pub enum Call {
    Next,
    NextBack,
    Nth(Arg),
    NthBack(Arg),
    SizeHint,
    Count,
    Last,
}

impl Call {
    fn enc(self) -> String {
        match self {
            Call::Next => "n".into(),
            Call::NextBack => "b".into(),
            Call::Nth(a) => format!("N{}", a.enc()),
            Call::NthBack(a) => format!("B{}", a.enc()),
            Call::SizeHint => "s".into(),
            Call::Count => "c".into(),
            Call::Last => "l".into(),
        }
    }
    fn dec(s: &str) -> Option<Call> {
        Some(match s {
            "n" => Call::Next,
            "b" => Call::NextBack,
            "s" => Call::SizeHint,
            "c" => Call::Count,
            "l" => Call::Last,
            _ => {
                if let Some(a) = s.strip_prefix('N') {
                    Call::Nth(Arg::dec(a)?)
                } else if let Some(a) = s.strip_prefix('B') {
                    Call::NthBack(Arg::dec(a)?)
                } else {
                    return None;
                }
            }
        })
    }
}

fn enc_calls(c: &[Call]) -> String {
    if c.is_empty() {
        return "-".into();
    }
    c.iter().map(|x| x.enc()).collect::<Vec<_>>().join(",")
}
fn dec_calls(s: &str) -> Option<Vec<Call>> {
    if s == "-" {
        return Some(vec![]);
    }
    s.split(',').map(Call::dec).collect()
}

/// Drive both iterators with the same calls; returns the first disagreement.
fn drive<'a, I1, I2>(mut it: I1, mut mi: I2, calls: &[Call], front_is_start: bool, total: usize) -> Result<u64, String>
where
    I1: DoubleEndedIterator<Item = Bit>,
    I2: DoubleEndedIterator<Item = &'a bool> + ExactSizeIterator,
{
    let mut steps = 0u64;
    // items consumed from the vector's low end (what BitIterator calls range.start)
    let mut consumed_low = 0usize;
    for (i, c) in calls.iter().enumerate() {
        steps += 1;
        let r = mi.len();
        let s = consumed_low;
        let before_len = mi.len();
        let (got, want): (String, String) = match c {
            Call::Next => (format!("{:?}", it.next().map(unbit)), format!("{:?}", mi.next().copied())),
            Call::NextBack => (format!("{:?}", it.next_back().map(unbit)), format!("{:?}", mi.next_back().copied())),
            Call::Nth(a) => {
                let k = a.resolve(r, s);
                (format!("{:?}", it.nth(k).map(unbit)), format!("{:?}", mi.nth(k).copied()))
            }
            Call::NthBack(a) => {
                let k = a.resolve(r, s);
                (format!("{:?}", it.nth_back(k).map(unbit)), format!("{:?}", mi.nth_back(k).copied()))
            }
            Call::SizeHint => (format!("{:?}", it.size_hint()), format!("{:?}", mi.size_hint())),
            Call::Count => {
                let g = it.count();
                let w = mi.count();
                if g != w {
                    return Err(format!("call #{} count() = {} ; slice iterator says {}", i, g, w));
                }
                return Ok(steps);
            }
            Call::Last => {
                let g = it.last().map(unbit);
                let w = mi.last().copied();
                if g != w {
                    return Err(format!("call #{} last() = {:?} ; slice iterator says {:?}", i, g, w));
                }
                return Ok(steps);
            }
        };
        if got != want {
            return Err(format!("call #{} {} returned {} ; slice iterator says {} (remaining before the call: {})", i, c.enc(), got, want, r));
        }
        // track how many items have been taken from the low end of the vector
        let taken = before_len - mi.len();
        let from_front = matches!(c, Call::Next | Call::Nth(_));
        if from_front == front_is_start {
            consumed_low += taken;
        }
        let _ = total;
    }
    // exhausted iterators keep returning None; size_hint agrees
    let g = (it.size_hint(), mi.size_hint());
    if g.0 != g.1 {
        return Err(format!("final size_hint {:?} ; slice iterator says {:?}", g.0, g.1));
    }
    let rest_g: Vec<bool> = it.by_ref().map(unbit).collect();
    let rest_w: Vec<bool> = mi.by_ref().copied().collect();
    if rest_g != rest_w {
        return Err(format!("draining the rest gave {} ; slice iterator gives {}", model::to_str(&rest_g.iter().rev().copied().collect::<Vec<_>>()), model::to_str(&rest_w.iter().rev().copied().collect::<Vec<_>>())));
    }
    for _ in 0..2 {
        if it.next().is_some() || it.next_back().is_some() || it.nth(0).is_some() || it.nth_back(0).is_some() {
            return Err("iterator returned Some after exhaustion".to_string());
        }
    }
    Ok(steps)
}

fn judge_iter<A: Subject + AllPairs>(ctx: &mut Ctx, case: &Case, wl: &str) {
    let a = case.spec("a");
    let calls = dec_calls(case.get("calls")).expect("HARNESS-ERROR: calls");
    let mode = case.usize("mode"); // 0 iter(), 1 (&v).into_iter(), 2 iter().rev()
    let (av, _) = build::<A>(&a);
    let n = a.bits.len();
    let before = snap(&av);
    let h = sig_hash(&[A::IDX as u64, 1700 + mode as u64, n as u64, model::hash_bits(&a.bits), model::hash64(case.get("calls").as_bytes())]);
    ctx.eval(h, n > 0 && !calls.is_empty());
    ctx.bucket(match mode {
        0 => "iter:iter()",
        1 => "iter:&v-into_iter",
        _ => "iter:rev",
    });
    for c in &calls {
        match c {
            Call::Nth(Arg::Max(_)) | Call::NthBack(Arg::Max(_)) | Call::Nth(Arg::MaxMinusStart(_)) | Call::NthBack(Arg::MaxMinusStart(_)) => ctx.bucket("iter:argument-near-usize::MAX"),
            Call::Nth(Arg::Rem(_)) | Call::NthBack(Arg::Rem(_)) => ctx.bucket("iter:argument-around-remaining"),
            Call::Count | Call::Last => ctx.bucket("iter:terminal-count/last"),
            Call::SizeHint => ctx.bucket("iter:size_hint-after-mixed-consumption"),
            _ => {}
        }
    }
    if calls.len() >= 2 && matches!(calls[0], Call::Next | Call::NextBack | Call::Nth(_) | Call::NthBack(_)) {
        ctx.bucket("iter:nth-on-partially-consumed");
    }
    let sig = format!("{}|{}", type_class(A::IDX), match mode {
        0 => "iter",
        1 => "into_iter",
        _ => "rev",
    });
    let cs = || case.enc();
    ctx.sample(wl, cs);
    let r = guarded(|| match mode {
        0 => drive(av.iter(), a.bits.iter(), &calls, true, n),
        1 => drive(av.ref_into_iter(), a.bits.iter(), &calls, true, n),
        _ => drive(av.iter().rev(), a.bits.iter().rev(), &calls, false, n),
    });
    match r {
        Ok(Ok(steps)) => ctx.observer_calls += steps,
        Ok(Err(d)) => ctx.violation("iterator-differs-from-slice-iterator", &sig, &cs(), format!("{} with calls [{}]: {}", a.describe(), enc_calls(&calls), d)),
        Err(p) => ctx.violation("iterator-panicked", &sig, &cs(), format!("{} with calls [{}] panicked: {}", a.describe(), enc_calls(&calls), p.short())),
    }
    if let (Ok(b), Ok(af)) = (&before, &snap(&av)) {
        if b != af {
            ctx.violation("iterating-modified-the-vector", &sig, &cs(), format!("{:?} -> {:?}", b, af));
        }
    }
}

pub fn judge(ctx: &mut Ctx, case: &Case, wl: &str) {
    let ty = case.spec("a").ty;
    with_type!(ty, A, {
        match case.kind.as_str() {
            "counts" => judge_counts::<A>(ctx, case, wl),
            "iter" => judge_iter::<A>(ctx, case, wl),
            k => panic!("HARNESS-ERROR: query cannot judge case kind {}", k),
        }
    })
}

pub fn replay(ctx: &mut Ctx, case: &Case) {
    judge(ctx, case, "replay")
}

fn run_c16(ctx: &mut Ctx) {
    let tier = ctx.tier;
    let mut rng = Rng::derive(ctx.seed, 0x1616, 0);
    for ty in 0..NTYPES {
        let cap = TYPE_FIXED_CAP[ty];
        let w = TYPE_WORD_BITS[ty];
        let k = if w == 8 { tier.pick(6, 15, 17) } else { tier.pick(5, 12, 14) };
        for n in 0..=k.min(cap.unwrap_or(usize::MAX)) {
            if !ctx.mine() {
                continue;
            }
            for va in gen::all_values(n) {
                judge(ctx, &Case::new("counts").with("a", Spec::set(ty, va).enc()), "W1-small-exhaustive");
            }
        }
        // every len: runs of every length from each end, interrupted by a single opposite bit
        let limit = cap.unwrap_or(tier.pick(140, 257, 300));
        for n in 0..=limit {
            if !ctx.mine() {
                continue;
            }
            let runs: Vec<usize> = if tier == Tier::Thorough || n <= 40 {
                (0..=n).collect()
            } else {
                let mut v = gen::boundary_lens(w, 8, Some(n), n);
                v.push(n / 2);
                v
            };
            for r in runs {
                for fillbit in [false, true] {
                    for from_top in [false, true] {
                        // run of `fillbit` of length r at one end, then one opposite bit, then alternatives
                        for rest in 0..3u8 {
                            let mut b: Bits = vec![false; n];
                            for i in 0..n {
                                let pos_in = if from_top { n - 1 - i } else { i };
                                let v = if pos_in < r {
                                    fillbit
                                } else if pos_in == r {
                                    !fillbit
                                } else {
                                    match rest {
                                        0 => fillbit,
                                        1 => !fillbit,
                                        _ => rng.bool(),
                                    }
                                };
                                b[i] = v;
                            }
                            let via = if rest == 2 { via_for(ty, &mut rng) } else { Via::Set };
                            judge(ctx, &Case::new("counts").with("a", Spec::new(ty, b, via).enc()), "W-runs-every-length");
                        }
                    }
                }
            }
        }
    }
    // long vectors: runs ending around every 64-bit boundary
    for ty in [IDX_BVD, IDX_BV] {
        for n in gen::long_lens(tier) {
            if !ctx.mine() {
                continue;
            }
            let mut runs: Vec<usize> = vec![0, 1, n - 1, n];
            let mut b = 64;
            while b < n {
                runs.extend([b - 1, b, b + 1]);
                b += if tier == Tier::Thorough { 64 } else { 64 * (1 + n / 1000) };
            }
            for r in runs {
                for fillbit in [false, true] {
                    for from_top in [false, true] {
                        let mut v: Bits = vec![!fillbit; n];
                        for i in 0..r.min(n) {
                            let idx = if from_top { n - 1 - i } else { i };
                            v[idx] = fillbit;
                        }
                        if r < n && r + 1 < n {
                            // everything beyond the terminating opposite bit: same as the run (worst case for a scan that stops late)
                            for i in (r + 1)..n {
                                let idx = if from_top { n - 1 - i } else { i };
                                v[idx] = fillbit;
                            }
                        }
                        judge(ctx, &Case::new("counts").with("a", Spec::new(ty, v, via_for(ty, &mut rng)).enc()), "W-long-vectors");
                    }
                }
            }
        }
    }
    let per = tier.pick(100, 12_000_000, 60_000_000) / ctx.nworkers + 1;
    let mut rng = Rng::derive(ctx.seed, 0x1617, ctx.worker as u64);
    for _ in 0..per {
        let ty = rng.below(NTYPES);
        let n = gen::random_len(ty, tier.pick(100, 400, 900), &mut rng);
        judge(ctx, &Case::new("counts").with("a", Spec::new(ty, gen::random_bits(n, &mut rng), via_for(ty, &mut rng)).enc()), "W3-seeded-random");
    }
}

fn alphabet() -> Vec<Call> {
    // 62/63/64: the distances at which a 64-bit storage word is used up
    let args = [
        Arg::K(0), Arg::K(1), Arg::K(2), Arg::K(62), Arg::K(63), Arg::K(64), Arg::Rem(-2), Arg::Rem(-1), Arg::Rem(0), Arg::Rem(1), Arg::Max(0), Arg::Max(1),
        Arg::MaxMinusStart(0), Arg::MaxMinusStart(1),
    ];
    let mut v = vec![Call::Next, Call::NextBack, Call::SizeHint];
    for a in args {
        v.push(Call::Nth(a));
        v.push(Call::NthBack(a));
    }
    v
}

fn run_c17(ctx: &mut Ctx) {
    let tier = ctx.tier;
    let mut rng = Rng::derive(ctx.seed, 0x1717, 0);
    let alpha = alphabet();
    let depth = tier.pick(2, 3, 4);
    let lens: Vec<usize> = match tier {
        Tier::Tiny => vec![0, 3, 9],
        Tier::Quick => vec![0, 1, 2, 3, 5, 9, 64, 65, 128],
        Tier::Thorough => vec![0, 1, 2, 3, 4, 5, 8, 9, 17, 20, 63, 64, 65, 127, 128, 129, 192],
    };
    // every call sequence up to `depth`, then each terminal
    let mut seqs: Vec<Vec<Call>> = vec![vec![]];
    let mut frontier: Vec<Vec<Call>> = vec![vec![]];
    for _ in 0..depth {
        let mut next = vec![];
        for s in &frontier {
            for c in &alpha {
                let mut t = s.clone();
                t.push(*c);
                next.push(t);
            }
        }
        seqs.extend(next.iter().cloned());
        frontier = next;
    }
    ctx.bucket_n("iter:complete-call-sequences-enumerated", (seqs.len() / ctx.nworkers) as u64 + 1);
    for ty in 0..NTYPES {
        let cap = TYPE_FIXED_CAP[ty].unwrap_or(usize::MAX);
        for n in &lens {
            if *n > cap {
                continue;
            }
            let bits = gen::random_bits(*n, &mut rng);
            let a = Spec::new(ty, bits, via_for(ty, &mut rng));
            for (si, s) in seqs.iter().enumerate() {
                // full depth only on a rotating subset of (type, len) in quick
                if !ctx.mine() {
                    continue;
                }
                if tier == Tier::Tiny && s.len() == depth && (si + ty + n) % 4 != 0 {
                    continue;
                }
                // word-sized vectors: complete to depth - 1 (quick), full depth in thorough
                if *n >= 63 && tier != Tier::Thorough && s.len() == depth {
                    continue;
                }
                let mode = (si + ty) % 3;
                let term = match si % 3 {
                    0 => None,
                    1 => Some(Call::Count),
                    _ => Some(Call::Last),
                };
                let mut calls = s.clone();
                if let Some(t) = term {
                    calls.push(t);
                }
                judge(ctx, &Case::new("iter").with("a", a.enc()).with("calls", enc_calls(&calls)).with("mode", mode), "W1-all-call-sequences");
            }
        }
    }
    // seeded long sequences on longer vectors
    let per = tier.pick(100, 4_000_000, 30_000_000) / ctx.nworkers + 1;
    let mut rng = Rng::derive(ctx.seed, 0x1718, ctx.worker as u64);
    for _ in 0..per {
        let ty = rng.below(NTYPES);
        let n = gen::random_len(ty, 300, &mut rng);
        let a = Spec::new(ty, gen::random_bits(n, &mut rng), via_for(ty, &mut rng));
        let len = 1 + rng.below(40);
        let mut calls: Vec<Call> = (0..len)
            .map(|_| {
                if rng.chance(1, 2) {
                    *rng.pick(&alpha)
                } else {
                    let k = Arg::K(rng.below(n / 3 + 2));
                    if rng.bool() {
                        Call::Nth(k)
                    } else {
                        Call::NthBack(k)
                    }
                }
            })
            .collect();
        match rng.below(4) {
            0 => calls.push(Call::Count),
            1 => calls.push(Call::Last),
            _ => {}
        }
        judge(ctx, &Case::new("iter").with("a", a.enc()).with("calls", enc_calls(&calls)).with("mode", rng.below(3)), "W3-seeded-random-sequences");
    }
}

pub fn run(ctx: &mut Ctx) {
    match ctx.prop.as_str() {
        "C16" => run_c16(ctx),
        "C17" => run_c17(ctx),
        p => panic!("HARNESS-ERROR: query cannot run {}", p),
    }
}

pub const REQUIRED_C16: &[&str] = &[
    "counts:empty", "counts:len-multiple-of-word", "counts:run-ends-at-word-boundary", "counts:run-ends-one-after-boundary",
    "counts:run-ends-one-before-boundary", "counts:run-spans-several-words", "counts:uniform-vector", "counts:spare-capacity",
];
pub const REQUIRED_C17: &[&str] = &[
    "iter:iter()", "iter:&v-into_iter", "iter:rev", "iter:argument-near-usize::MAX", "iter:argument-around-remaining",
    "iter:terminal-count/last", "iter:size_hint-after-mixed-consumption", "iter:nth-on-partially-consumed",
    "iter:complete-call-sequences-enumerated",
];
