//! One module per family of properties; `PROPS` is the registry used by the CLI.

use crate::case::Case;
use crate::report::Ctx;

pub mod arith;

pub struct PropDef {
    pub id: &'static str,
    pub run: fn(&mut Ctx),
    pub replay: fn(&mut Ctx, &Case),
    pub required: &'static [&'static str],
}

pub const PROPS: &[PropDef] = &[
    PropDef { id: "C01", run: arith::run, replay: arith::replay, required: arith::REQUIRED_C01 },
    PropDef { id: "C02", run: arith::run, replay: arith::replay, required: arith::REQUIRED_C02 },
    PropDef { id: "C04", run: arith::run, replay: arith::replay, required: arith::REQUIRED_C04 },
    PropDef { id: "C20", run: arith::run, replay: arith::replay, required: arith::REQUIRED_C20 },
];

pub fn find(id: &str) -> Option<&'static PropDef> {
    PROPS.iter().find(|p| p.id == id)
}
