//! One module per family of properties; `PROPS` is the registry used by the CLI.

use crate::case::Case;
use crate::report::Ctx;

pub mod arith;
pub mod conv;
pub mod fixedcap;
pub mod hist;
pub mod io;
#[cfg(feature = "hooks")]
pub mod prim;
pub mod query;
pub mod rel;
pub mod sanit;
pub mod shift;
pub mod slice;
pub mod text;

pub struct PropDef {
    pub id: &'static str,
    pub run: fn(&mut Ctx),
    pub replay: fn(&mut Ctx, &Case),
    pub required: &'static [&'static str],
}

pub const PROPS: &[PropDef] = &[
    PropDef { id: "C01", run: arith::run, replay: arith::replay, required: arith::REQUIRED_C01 },
    PropDef { id: "C02", run: arith::run, replay: arith::replay, required: arith::REQUIRED_C02 },
    PropDef { id: "C04", run: arith::run, replay: arith::replay, required: arith::REQUIRED_C04 },
    PropDef { id: "C03", run: hist::run, replay: hist::replay, required: hist::REQUIRED_C03 },
    PropDef { id: "C05", run: shift::run, replay: shift::replay, required: shift::REQUIRED_C05 },
    PropDef { id: "C06", run: shift::run, replay: shift::replay, required: shift::REQUIRED_C06 },
    PropDef { id: "C07", run: hist::run, replay: hist::replay, required: hist::REQUIRED_C07 },
    PropDef { id: "C08", run: slice::run, replay: slice::replay, required: slice::REQUIRED_C08 },
    PropDef { id: "C09", run: rel::run, replay: rel::replay, required: rel::REQUIRED_C09 },
    PropDef { id: "C10", run: rel::run, replay: rel::replay, required: rel::REQUIRED_C10 },
    PropDef { id: "C11", run: conv::run, replay: conv::replay, required: conv::REQUIRED_C11 },
    PropDef { id: "C12", run: conv::run, replay: conv::replay, required: conv::REQUIRED_C12 },
    PropDef { id: "C13", run: io::run, replay: io::replay, required: io::REQUIRED_C13 },
    PropDef { id: "C14", run: text::run, replay: text::replay, required: text::REQUIRED_C14 },
    PropDef { id: "C15", run: text::run, replay: text::replay, required: text::REQUIRED_C15 },
    PropDef { id: "C16", run: query::run, replay: query::replay, required: query::REQUIRED_C16 },
    PropDef { id: "C17", run: query::run, replay: query::replay, required: query::REQUIRED_C17 },
    PropDef { id: "C18", run: hist::run, replay: hist::replay, required: hist::REQUIRED_C18 },
    PropDef { id: "C19", run: fixedcap::run, replay: fixedcap::replay, required: fixedcap::REQUIRED_C19 },
    PropDef { id: "SANIT", run: sanit::run, replay: sanit::replay, required: sanit::REQUIRED_SANIT },
    PropDef { id: "C20", run: arith::run, replay: arith::replay, required: arith::REQUIRED_C20 },
];

pub fn find(id: &str) -> Option<&'static PropDef> {
    PROPS.iter().find(|p| p.id == id)
}
