//! C05 (shifts, shl_in/shr_in) and C06 (rotations).

use crate::case::Case;
use crate::exec::guarded;
use crate::gen;
use crate::judge::*;
use crate::model::{self, Bits};
use crate::report::{Ctx, Tier};
use crate::rng::Rng;
use crate::spec::{build, read_bits, Spec, Via, VIAS_BASIC};
use crate::types::*;
use crate::with_type;

fn via_for(ty: usize, rng: &mut Rng) -> Via {
    let v = *rng.pick(&VIAS_BASIC);
    match v {
        Via::Spare(_) if TYPE_FIXED_CAP[ty].is_some() => Via::Set,
        Via::Spare(_) => Via::Spare(*rng.pick(&[1usize, 64, 65, 200])),
        v => v,
    }
}

fn shift_case(a: &Spec, k: UInt, left: bool, form: Form) -> Case {
    Case::new("shift").with("a", a.enc()).with("k", k.enc()).with("left", left as u8).with("form", form.name())
}

fn judge_shift<A: Subject + AllPairs>(ctx: &mut Ctx, case: &Case, wl: &str) {
    let a = case.spec("a");
    let k = case.uint("k");
    let left = case.flag("left");
    let form = case.form("form");
    let n = a.bits.len();
    let w = TYPE_WORD_BITS[a.ty];
    let expected = if left { model::shl(&a.bits, k.val()) } else { model::shr(&a.bits, k.val()) };
    let (av, _) = build::<A>(&a);
    let r = guarded(|| A::shift(&av, left, form, k));
    let s = sig_hash(&[a.ty as u64, 500 + left as u64, form as u64, k.ty() as u64, k.val() as u64, (k.val() >> 64) as u64, n as u64, model::hash_bits(&a.bits), model::hash64(a.via.enc().as_bytes())]);
    ctx.eval(s, n > 0 && k.val() > 0 && !model::is_zero(&a.bits));
    // buckets
    let kv = k.val();
    if kv > 0 && kv % w as u128 == 0 && kv < n as u128 {
        ctx.bucket("k-word-aligned-inside");
    }
    if n > 0 && n % w == 0 && (kv == n as u128 - 1 || kv == n as u128 || kv == n as u128 + 1) {
        ctx.bucket("k-around-n-with-n-word-aligned");
    }
    if kv >= 1u128 << 64 {
        ctx.bucket("k>=2^64");
    }
    if kv >= n as u128 {
        ctx.bucket("k>=n");
    }
    if n == 0 {
        ctx.bucket("n=0");
    }
    if a.ty == IDX_BVD && matches!(form, Form::RV | Form::RR) {
        ctx.bucket(if left { "bvd-by-ref-shl" } else { "bvd-by-ref-shr" });
    }
    ctx.bucket(&format!("ktype:{}", k.ty().name()));
    let opn = if left { "shl" } else { "shr" };
    let kclass = if kv >= 1u128 << 64 { "k>=2^64" } else if kv >= n as u128 { "k>=n" } else { "k<n" };
    let sig = format!("{}|{}|{}|{}", type_class(a.ty), opn, kclass, if matches!(form, Form::RV | Form::RR) { "by-ref" } else { "owned/assign" });
    let cs = || shift_case(&a, k, left, form).enc();
    ctx.sample(wl, cs);
    match r {
        Ok(res) => {
            check_result::<A>(ctx, opn, &sig, &cs(), &res, &expected, s % 41 == 0);
        }
        Err(p) => ctx.violation(
            &format!("{}:unexpected-panic", opn),
            &sig,
            &cs(),
            format!("{} {} {} (form {}) panicked: {}", a.describe(), if left { "<<" } else { ">>" }, k.enc(), form.name(), p.short()),
        ),
    }
}

fn judge_shin<A: Subject + AllPairs>(ctx: &mut Ctx, case: &Case, wl: &str) {
    let a = case.spec("a");
    let b = case.flag("bit");
    let left = case.flag("left");
    let n = a.bits.len();
    let (exp_bits, exp_out): (Bits, bool) = if n == 0 {
        (vec![], b)
    } else if left {
        let mut v = vec![b];
        v.extend_from_slice(&a.bits[..n - 1]);
        (v, a.bits[n - 1])
    } else {
        let mut v = a.bits[1..].to_vec();
        v.push(b);
        (v, a.bits[0])
    };
    let (mut av, _) = build::<A>(&a);
    let r = guarded(|| if left { av.shl_in(bit(b)) } else { av.shr_in(bit(b)) });
    let s = sig_hash(&[a.ty as u64, 600 + left as u64, b as u64, n as u64, model::hash_bits(&a.bits), model::hash64(a.via.enc().as_bytes())]);
    ctx.eval(s, n > 0);
    if n == 0 {
        ctx.bucket("shin:n=0");
    }
    if n > 0 && n % TYPE_WORD_BITS[a.ty] == 0 {
        ctx.bucket("shin:n-word-aligned");
    }
    let opn = if left { "shl_in" } else { "shr_in" };
    let sig = format!("{}|{}", type_class(a.ty), opn);
    let cs = || Case::new("shin").with("a", a.enc()).with("bit", b as u8).with("left", left as u8).enc();
    ctx.sample(wl, cs);
    match r {
        Ok(out) => {
            if unbit(out) != exp_out {
                ctx.violation(
                    &format!("{}:returned-bit", opn),
                    &sig,
                    &cs(),
                    format!("{}.{}({}) returned {:?}, the model says {}", a.describe(), opn, b as u8, out, exp_out as u8),
                );
            }
            check_result::<A>(ctx, opn, &sig, &cs(), &av, &exp_bits, s % 23 == 0);
        }
        Err(p) => ctx.violation(&format!("{}:unexpected-panic", opn), &sig, &cs(), format!("{}.{} panicked: {}", a.describe(), opn, p.short())),
    }
}

fn judge_rot<A: Subject + AllPairs>(ctx: &mut Ctx, case: &Case, wl: &str) {
    let a = case.spec("a");
    let k = case.usize("k");
    let left = case.flag("left");
    let n = a.bits.len();
    let expected = if left { model::rotl(&a.bits, k) } else { model::rotr(&a.bits, k) };
    let (av, _) = build::<A>(&a);
    let s = sig_hash(&[a.ty as u64, 700 + left as u64, k as u64, n as u64, model::hash_bits(&a.bits), model::hash64(a.via.enc().as_bytes())]);
    ctx.eval(s, n > 1 && k % n.max(1) != 0 && !model::is_zero(&a.bits) && model::popcount(&a.bits) != n);
    let w = TYPE_WORD_BITS[a.ty];
    if n == 0 {
        ctx.bucket("rot:n=0");
    }
    if k == n && n > 0 {
        ctx.bucket("rot:k=n");
    }
    if k == 0 {
        ctx.bucket("rot:k=0");
    }
    if n > w {
        ctx.bucket("rot:multi-word");
        if k % w == 0 && k > 0 && k < n {
            ctx.bucket("rot:k-word-aligned");
        }
    }
    if matches!(a.via, Via::Spare(_) | Via::HeapShort) && TYPE_FIXED_CAP[a.ty].is_none() {
        ctx.bucket("rot:spare-capacity");
    }
    let opn = if left { "rotl" } else { "rotr" };
    let sig = format!("{}|{}", type_class(a.ty), opn);
    let cs = || Case::new("rot").with("a", a.enc()).with("k", k).with("left", left as u8).enc();
    ctx.sample(wl, cs);
    let mut x = av.clone();
    match guarded(|| if left { x.rotl(k) } else { x.rotr(k) }) {
        Ok(()) => {
            if !check_result::<A>(ctx, opn, &sig, &cs(), &x, &expected, s % 37 == 0) {
                return;
            }
        }
        Err(p) => {
            ctx.violation(&format!("{}:unexpected-panic", opn), &sig, &cs(), format!("{}.{}({}) panicked: {}", a.describe(), opn, k, p.short()));
            return;
        }
    }
    // mutually inverse
    let mut back = x.clone();
    match guarded(|| {
        if left {
            back.rotr(k)
        } else {
            back.rotl(k)
        }
        read_bits(&back)
    }) {
        Ok(bits) => {
            if bits != a.bits {
                ctx.violation(
                    &format!("{}:not-inverse", opn),
                    &sig,
                    &cs(),
                    format!("{} then the opposite rotation by {} gave {} instead of the original {}", opn, k, model::to_str(&bits), model::to_str(&a.bits)),
                );
            }
        }
        Err(p) => ctx.violation(&format!("{}:inverse-panicked", opn), &sig, &cs(), p.short()),
    }
    // rotl(k) == rotr(n - k)
    if n > 0 && k <= n {
        let mut other = av.clone();
        match guarded(|| {
            if left {
                other.rotr(n - k)
            } else {
                other.rotl(n - k)
            }
            read_bits(&other)
        }) {
            Ok(bits) => {
                if bits != expected {
                    ctx.violation(
                        &format!("{}:complement-rotation-differs", opn),
                        &sig,
                        &cs(),
                        format!("{}({}) = {} but the opposite rotation by n-k = {} gave {}", opn, k, model::to_str(&expected), n - k, model::to_str(&bits)),
                    );
                }
            }
            Err(p) => ctx.violation(&format!("{}:complement-panicked", opn), &sig, &cs(), p.short()),
        }
    }
    if let Ok(bits) = guarded(|| read_bits(&x)) {
        if model::popcount(&bits) != model::popcount(&a.bits) {
            ctx.violation(&format!("{}:popcount-changed", opn), &sig, &cs(), format!("{} -> {}", model::to_str(&a.bits), model::to_str(&bits)));
        }
    }
}

pub fn judge(ctx: &mut Ctx, case: &Case, wl: &str) {
    let ty = case.spec("a").ty;
    with_type!(ty, A, {
        match case.kind.as_str() {
            "shift" => judge_shift::<A>(ctx, case, wl),
            "shin" => judge_shin::<A>(ctx, case, wl),
            "rot" => judge_rot::<A>(ctx, case, wl),
            k => panic!("HARNESS-ERROR: shift cannot judge case kind {}", k),
        }
    })
}

pub fn replay(ctx: &mut Ctx, case: &Case) {
    judge(ctx, case, "replay")
}

fn utys_holding(k: u128) -> Vec<UTy> {
    ALL_UTY.iter().copied().filter(|t| k <= t.max()).collect()
}

fn run_c05(ctx: &mut Ctx) {
    let tier = ctx.tier;
    let mut rng = Rng::derive(ctx.seed, 0x0505, 0);
    let mut idx = 0usize;
    // W1a: exhaustive small: every value, every k in 0..=n+2
    let small_max = tier.pick(4, 9, 12);
    for ta in 0..NTYPES {
        let cap = TYPE_FIXED_CAP[ta].unwrap_or(usize::MAX);
        for n in 0..=small_max.min(cap) {
            if !ctx.mine() {
                continue;
            }
            for va in gen::all_values(n) {
                let a = Spec::set(ta, va);
                for k in 0..=(n + 2) as u128 {
                    for left in [true, false] {
                        idx += 1;
                        let uty = ALL_UTY[idx % 6];
                        let form = ALL_FORMS[(idx / 6) % 6];
                        judge(ctx, &shift_case(&a, uty.make(k), left, form), "W1-small-exhaustive");
                    }
                }
            }
        }
    }
    // W1b: every n up to 2W+2 (capped) x every k x lattice values
    for ta in 0..NTYPES {
        let w = TYPE_WORD_BITS[ta];
        let cap = TYPE_FIXED_CAP[ta].unwrap_or(usize::MAX);
        let top = (2 * w + 2).min(tier.pick(20, 40, 140)).min(cap);
        for n in 0..=top {
            let vals = gen::lattice_small(n, w, &mut rng);
            if !ctx.mine() {
                continue;
            }
            for va in &vals {
                let a = Spec::new(ta, va.clone(), via_for(ta, &mut rng));
                for k in 0..=(n + 2) as u128 {
                    for left in [true, false] {
                        idx += 1;
                        let uty = ALL_UTY[idx % 6];
                        let form = ALL_FORMS[(idx / 6) % 6];
                        judge(ctx, &shift_case(&a, uty.make(k), left, form), "W1-all-k-lattice");
                    }
                }
            }
        }
    }
    // W4: hostile amounts in every native type that can hold them, boundary lengths, the full value lattice
    // (alternating all-ones / zero words, zero low words under a set top word, ...)
    for ta in 0..NTYPES {
        let w = TYPE_WORD_BITS[ta];
        let mut lens = gen::boundary_lens(w, 8, TYPE_FIXED_CAP[ta], gen::dyn_max(tier));
        if TYPE_FIXED_CAP[ta].is_none() {
            lens.extend(gen::long_lens(tier));
        }
        for n in lens {
            let long = n > 300;
            let vals = if long { gen::lattice_small(n, w, &mut rng) } else { gen::lattice(n, w, &mut rng) };
            if !ctx.mine() {
                continue;
            }
            let mut ks = gen::hostile_amounts(n, w);
            // multiples of the word size below n and their neighbours (all of them up to 300 bits, a spread beyond)
            let mut mults: Vec<usize> = (1..=(n / w + 1)).map(|i| i * w).collect();
            if long {
                let l = mults.len();
                mults = vec![mults[0], mults[1], mults[l / 3], mults[l / 2], mults[l - 3], mults[l - 2], mults[l - 1]];
            }
            for m in mults {
                ks.extend([m as u128 - 1, m as u128, m as u128 + 1]);
            }
            ks.sort();
            ks.dedup();
            for va in &vals {
                let a = Spec::new(ta, va.clone(), via_for(ta, &mut rng));
                for k in &ks {
                    let utys = utys_holding(*k);
                    for left in [true, false] {
                        idx += 1;
                        // all native types and forms where the amount is rare, a rotating one otherwise
                        if *k >= 1u128 << 32 || tier == Tier::Thorough {
                            for uty in &utys {
                                let forms: Vec<Form> = if ta == IDX_BVD { ALL_FORMS.to_vec() } else { vec![ALL_FORMS[idx % 6]] };
                                for form in forms {
                                    judge(ctx, &shift_case(&a, uty.make(*k), left, form), "W4-hostile-shift-amounts");
                                }
                            }
                        } else {
                            let uty = utys[idx % utys.len()];
                            let form = ALL_FORMS[(idx / 7) % 6];
                            judge(ctx, &shift_case(&a, uty.make(*k), left, form), "W4-hostile-shift-amounts");
                            if ta == IDX_BVD {
                                // the by-reference bodies of the dynamic type are separate code
                                judge(ctx, &shift_case(&a, uty.make(*k), left, if idx % 2 == 0 { Form::RV } else { Form::RR }), "W4-hostile-shift-amounts");
                            }
                        }
                    }
                }
            }
        }
    }
    // shl_in / shr_in
    let small_max = tier.pick(5, 12, 16);
    for ta in 0..NTYPES {
        let w = TYPE_WORD_BITS[ta];
        let cap = TYPE_FIXED_CAP[ta].unwrap_or(usize::MAX);
        for n in 0..=small_max.min(cap) {
            if !ctx.mine() {
                continue;
            }
            for va in gen::all_values(n) {
                let a = Spec::set(ta, va);
                for b in [false, true] {
                    for left in [true, false] {
                        judge(ctx, &Case::new("shin").with("a", a.enc()).with("bit", b as u8).with("left", left as u8), "W1-small-exhaustive");
                    }
                }
            }
        }
        let mut lens = gen::boundary_lens(w, 8, TYPE_FIXED_CAP[ta], gen::dyn_max(tier));
        if TYPE_FIXED_CAP[ta].is_none() {
            lens.extend(gen::long_lens(tier));
        }
        for n in lens {
            let vals = gen::lattice(n, w, &mut rng);
            if !ctx.mine() {
                continue;
            }
            for va in &vals {
                let a = Spec::new(ta, va.clone(), via_for(ta, &mut rng));
                for b in [false, true] {
                    for left in [true, false] {
                        judge(ctx, &Case::new("shin").with("a", a.enc()).with("bit", b as u8).with("left", left as u8), "W2-word-boundary-lattice");
                    }
                }
            }
        }
    }
    // W3: random
    let per = tier.pick(200, 600_000, 6_000_000) / ctx.nworkers + 1;
    let mut rng = Rng::derive(ctx.seed, 0x0506, ctx.worker as u64);
    for _ in 0..per {
        let ta = rng.below(NTYPES);
        let n = gen::random_len(ta, gen::dyn_max(tier), &mut rng);
        let a = Spec::new(ta, gen::random_bits(n, &mut rng), via_for(ta, &mut rng));
        let k = if rng.chance(3, 4) { rng.below(n + 3) as u128 } else { *rng.pick(&gen::hostile_amounts(n, TYPE_WORD_BITS[ta])) };
        let utys = utys_holding(k);
        let uty = *rng.pick(&utys);
        judge(ctx, &shift_case(&a, uty.make(k), rng.bool(), ALL_FORMS[rng.below(6)]), "W3-seeded-random");
    }
}

fn run_c06(ctx: &mut Ctx) {
    let tier = ctx.tier;
    let mut rng = Rng::derive(ctx.seed, 0x0606, 0);
    // exhaustive small: all values, all k
    let small_max = tier.pick(5, 11, 15);
    for ta in 0..NTYPES {
        let cap = TYPE_FIXED_CAP[ta].unwrap_or(usize::MAX);
        for n in 0..=small_max.min(cap) {
            if !ctx.mine() {
                continue;
            }
            for va in gen::all_values(n) {
                let a = Spec::set(ta, va);
                let ks: Vec<usize> = if n == 0 { vec![0, 1, 5] } else { (0..=n).collect() };
                for k in ks {
                    for left in [true, false] {
                        judge(ctx, &Case::new("rot").with("a", a.enc()).with("k", k).with("left", left as u8), "W1-small-exhaustive");
                    }
                }
            }
        }
    }
    // every n up to cap (or a bound) x every k x lattice values (quick: boundary lengths, sampled k)
    for ta in 0..NTYPES {
        let w = TYPE_WORD_BITS[ta];
        let limit = TYPE_FIXED_CAP[ta].unwrap_or(tier.pick(70, 200, 260));
        let mut lens: Vec<usize> = if tier == Tier::Thorough { (0..=limit).collect() } else { gen::boundary_lens(w, 8, TYPE_FIXED_CAP[ta], limit) };
        if TYPE_FIXED_CAP[ta].is_none() {
            lens.extend(gen::long_lens(tier));
        }
        for n in lens {
            let vals = if n > 300 { gen::lattice_small(n, w, &mut rng) } else { gen::lattice(n, w, &mut rng) };
            if !ctx.mine() {
                continue;
            }
            let ks: Vec<usize> = if (tier == Tier::Thorough && n <= 300) || n <= 40 {
                (0..=n).collect()
            } else {
                let mut v: Vec<usize> = gen::boundary_lens(w, 8, Some(n), n);
                v.push(n / 2);
                v.push(n - 1);
                v.sort();
                v.dedup();
                v
            };
            for va in &vals {
                let a = Spec::new(ta, va.clone(), via_for(ta, &mut rng));
                for k in &ks {
                    for left in [true, false] {
                        judge(ctx, &Case::new("rot").with("a", a.enc()).with("k", *k).with("left", left as u8), "W2-all-k-lattice");
                    }
                }
            }
        }
    }
    // random
    let per = tier.pick(200, 300_000, 4_000_000) / ctx.nworkers + 1;
    let mut rng = Rng::derive(ctx.seed, 0x0607, ctx.worker as u64);
    for _ in 0..per {
        let ta = rng.below(NTYPES);
        let n = gen::random_len(ta, tier.pick(100, 300, 700), &mut rng);
        let a = Spec::new(ta, gen::random_bits(n, &mut rng), via_for(ta, &mut rng));
        let k = rng.below(n + 1);
        judge(ctx, &Case::new("rot").with("a", a.enc()).with("k", k).with("left", rng.bool() as u8), "W3-seeded-random");
    }
}

pub fn run(ctx: &mut Ctx) {
    match ctx.prop.as_str() {
        "C05" => run_c05(ctx),
        "C06" => run_c06(ctx),
        p => panic!("HARNESS-ERROR: shift cannot run {}", p),
    }
}

pub const REQUIRED_C05: &[&str] = &[
    "k-word-aligned-inside", "k-around-n-with-n-word-aligned", "k>=2^64", "k>=n", "n=0",
    "bvd-by-ref-shl", "bvd-by-ref-shr", "ktype:u8", "ktype:u16", "ktype:u32", "ktype:u64", "ktype:u128", "ktype:usize",
    "shin:n=0", "shin:n-word-aligned",
];
pub const REQUIRED_C06: &[&str] = &["rot:n=0", "rot:k=n", "rot:k=0", "rot:multi-word", "rot:k-word-aligned", "rot:spare-capacity"];
