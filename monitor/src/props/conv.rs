//! C11 (conversions to and from native integers, Bit conversions) and C12 (conversions between
//! implementations, new/into_inner).

use crate::case::Case;
use crate::exec::guarded;
use crate::gen;
use crate::judge::*;
use crate::model::{self, Bits};
use crate::report::{Ctx, Tier};
use crate::rng::Rng;
use crate::spec::{build, read_bits, Spec, Via, VIAS_BASIC};
use crate::types::*;
use crate::with_type;

fn via_for(ty: usize, rng: &mut Rng) -> Via {
    let v = *rng.pick(&crate::spec::VIAS_ALL);
    match v {
        Via::Spare(_) if TYPE_FIXED_CAP[ty].is_some() => Via::Set,
        Via::Spare(_) => Via::Spare(*rng.pick(&[1usize, 64, 65, 200])),
        v => v,
    }
}

// ------------------------------------------------------------------------------------------------
// C11
// ------------------------------------------------------------------------------------------------

fn judge_fromuint<A: Subject + AllPairs>(ctx: &mut Ctx, case: &Case, wl: &str) {
    let x = case.uint("x");
    let by_ref = case.flag("ref");
    let w = x.ty().bits();
    let sig_x = 128 - x.val().leading_zeros() as usize;
    let expected: Option<Bits> = match A::FIXED_CAP {
        Some(c) => {
            if sig_x > c {
                None
            } else {
                Some(model::from_u128(x.val(), w.min(c)))
            }
        }
        None => Some(model::from_u128(x.val(), w)),
    };
    let h = sig_hash(&[A::IDX as u64, 1100, x.ty() as u64, by_ref as u64, x.val() as u64, (x.val() >> 64) as u64]);
    ctx.eval(h, x.val() != 0);
    ctx.bucket(&format!("from:{}", x.ty().name()));
    if let Some(c) = A::FIXED_CAP {
        if sig_x == c || sig_x == c + 1 {
            ctx.bucket("from:value-straddles-capacity");
        }
        if expected.is_none() {
            ctx.bucket("from:overflow-expected");
        }
    }
    let sig = format!("{}|from-{}", type_class(A::IDX), x.ty().name());
    let cs = || Case::new("fromuint").with("ty", A::IDX).with("x", x.enc()).with("ref", by_ref as u8).enc();
    ctx.sample(wl, cs);
    match guarded(|| A::from_uint(x, by_ref)) {
        Ok(Ok(v)) => match &expected {
            Some(e) => {
                check_result::<A>(ctx, "from_uint", &sig, &cs(), &v, e, h % 13 == 0);
            }
            None => ctx.violation(
                "from_uint:overflow-accepted",
                &sig,
                &cs(),
                format!("{}::try_from({}) returned Ok(len {}) although the value has {} significant bits > capacity", A::NAME, x.enc(), v.len(), sig_x),
            ),
        },
        Ok(Err(e)) => {
            if expected.is_some() || e != ConvertionError::NotEnoughCapacity {
                ctx.violation("from_uint:wrong-error", &sig, &cs(), format!("{}::try_from({}) returned Err({:?}) ; expected {:?}", A::NAME, x.enc(), e, expected.as_ref().map(|b| model::to_str(b))));
            } else {
                ctx.panics_expected += 1;
            }
        }
        Err(p) => ctx.violation("from_uint:panicked", &sig, &cs(), format!("{}::try_from({}) panicked: {}", A::NAME, x.enc(), p.short())),
    }
}

fn judge_touint<A: Subject + AllPairs>(ctx: &mut Ctx, case: &Case, wl: &str) {
    let a = case.spec("a");
    let uty = UTy::parse(case.get("uty")).expect("HARNESS-ERROR: uty");
    let by_ref = case.flag("ref");
    let (av, _) = build::<A>(&a);
    let sigb = model::sig_bits(&a.bits);
    let expected: Option<u128> = if sigb <= uty.bits() { Some(model::val128(&a.bits).expect("HARNESS-ERROR: val128")) } else { None };
    let h = sig_hash(&[A::IDX as u64, 1101, uty as u64, by_ref as u64, a.bits.len() as u64, model::hash_bits(&a.bits), model::hash64(a.via.enc().as_bytes())]);
    ctx.eval(h, !model::is_zero(&a.bits));
    ctx.bucket(&format!("to:{}", uty.name()));
    if a.bits.is_empty() {
        ctx.bucket("to:empty-vector");
    }
    if sigb == uty.bits() || sigb == uty.bits() + 1 {
        ctx.bucket("to:value-straddles-width");
    }
    if a.bits.len() > uty.bits() && expected.is_some() {
        ctx.bucket("to:long-vector-small-value");
    }
    let sig = format!("{}|to-{}", type_class(A::IDX), uty.name());
    let cs = || Case::new("touint").with("a", a.enc()).with("uty", uty.name()).with("ref", by_ref as u8).enc();
    ctx.sample(wl, cs);
    match guarded(|| av.to_uint(uty, by_ref)) {
        Ok(Ok(v)) => {
            if Some(v.val()) != expected || v.ty() != uty {
                ctx.violation("to_uint:wrong-value", &sig, &cs(), format!("{}::try_from({}) returned Ok({}) ; expected {:?}", uty.name(), a.describe(), v.val(), expected));
            }
        }
        Ok(Err(e)) => {
            if expected.is_some() || e != ConvertionError::NotEnoughCapacity {
                ctx.violation("to_uint:wrong-error", &sig, &cs(), format!("{}::try_from({}) returned Err({:?}) ; expected {:?}", uty.name(), a.describe(), e, expected));
            } else {
                ctx.panics_expected += 1;
            }
        }
        Err(p) => ctx.violation("to_uint:panicked", &sig, &cs(), format!("{}::try_from({}) panicked: {}", uty.name(), a.describe(), p.short())),
    }
}

fn judge_fromslice<A: Subject + AllPairs>(ctx: &mut Ctx, case: &Case, wl: &str) {
    let uty = UTy::parse(case.get("uty")).expect("HARNESS-ERROR: uty");
    let vals: Vec<u128> = if case.get("vals") == "-" { vec![] } else { case.get("vals").split(',').map(|v| v.parse().expect("HARNESS-ERROR: vals")).collect() };
    let w = uty.bits();
    let total = vals.len() * w;
    let expected: Option<Bits> = if A::FIXED_CAP.map_or(false, |c| total > c) {
        None
    } else {
        let mut bits = vec![];
        for v in &vals {
            bits.extend(model::from_u128(*v, w));
        }
        Some(bits)
    };
    let h = sig_hash(&[A::IDX as u64, 1102, uty as u64, vals.len() as u64, model::hash64(case.get("vals").as_bytes())]);
    ctx.eval(h, !vals.is_empty() && vals.iter().any(|v| *v != 0));
    ctx.bucket(&format!("slice:{}", uty.name()));
    if vals.is_empty() {
        ctx.bucket("slice:empty");
    }
    if let Some(c) = A::FIXED_CAP {
        if total == c {
            ctx.bucket("slice:exactly-capacity");
        }
        if total > c {
            ctx.bucket("slice:over-capacity");
        }
    }
    let sig = format!("{}|from-slice-{}", type_class(A::IDX), uty.name());
    let cs = || case.enc();
    ctx.sample(wl, cs);
    let sl = USlice::make(uty, &vals);
    match guarded(|| A::from_uslice(&sl)) {
        Ok(Ok(v)) => match &expected {
            Some(e) => {
                check_result::<A>(ctx, "from_slice", &sig, &cs(), &v, e, h % 13 == 0);
            }
            None => ctx.violation("from_slice:overflow-accepted", &sig, &cs(), format!("{} from {} x {} returned Ok(len {})", A::NAME, vals.len(), uty.name(), v.len())),
        },
        Ok(Err(e)) => {
            if expected.is_some() || e != ConvertionError::NotEnoughCapacity {
                ctx.violation("from_slice:wrong-error", &sig, &cs(), format!("{} from {} x {} returned Err({:?})", A::NAME, vals.len(), uty.name(), e));
            } else {
                ctx.panics_expected += 1;
            }
        }
        Err(p) => ctx.violation("from_slice:panicked", &sig, &cs(), format!("{} from {} x {} panicked: {}", A::NAME, vals.len(), uty.name(), p.short())),
    }
}

fn judge_bitconv(ctx: &mut Ctx, case: &Case, wl: &str) {
    let x = case.u128("x");
    ctx.eval(sig_hash(&[1103, x as u64, (x >> 64) as u64]), x > 1);
    ctx.bucket("bit-conversions");
    ctx.sample(wl, || case.enc());
    let r = guarded(|| {
        let mut bad = vec![];
        macro_rules! chk {
            ($t:ty) => {
                let v = x as $t;
                let b: Bit = Bit::from(v);
                if (b == Bit::One) != (v != 0) {
                    bad.push(format!("Bit::from({}{}) = {:?}", v, stringify!($t), b));
                }
                let z: $t = <$t>::from(Bit::Zero);
                let o: $t = <$t>::from(Bit::One);
                if z != 0 || o != 1 {
                    bad.push(format!("{}::from(Bit) = {} / {}", stringify!($t), z, o));
                }
            };
        }
        chk!(u8);
        chk!(u16);
        chk!(u32);
        chk!(u64);
        chk!(u128);
        chk!(usize);
        if Bit::from(true) != Bit::One || Bit::from(false) != Bit::Zero || bool::from(Bit::One) != true || bool::from(Bit::Zero) != false {
            bad.push("bool <-> Bit".to_string());
        }
        if format!("{}{}", Bit::Zero, Bit::One) != "01" {
            bad.push("Display".to_string());
        }
        bad
    });
    match r {
        Ok(bad) => {
            if !bad.is_empty() {
                ctx.violation("bit-conversion", "Bit", &case.enc(), bad.join("; "));
            }
        }
        Err(p) => ctx.violation("bit-conversion:panicked", "Bit", &case.enc(), p.short()),
    }
}

// ------------------------------------------------------------------------------------------------
// C12
// ------------------------------------------------------------------------------------------------

fn conv_pair<A: Subject + Pair<B>, B: Subject + AllPairs>(ctx: &mut Ctx, a: &Spec, wl: &str) {
    let (av, _) = build::<A>(a);
    let n = a.bits.len();
    let fits = B::FIXED_CAP.map_or(true, |c| n <= c);
    let h = sig_hash(&[A::IDX as u64, B::IDX as u64, 1200, n as u64, model::hash_bits(&a.bits), model::hash64(a.via.enc().as_bytes())]);
    ctx.eval(h, n > 0 && !model::is_zero(&a.bits));
    ctx.type_pairs.insert((A::IDX as u8, B::IDX as u8));
    if let Some(c) = B::FIXED_CAP {
        if n == c {
            ctx.bucket("conv:len=target-capacity");
        }
        if n == c + 1 {
            ctx.bucket("conv:len=target-capacity+1");
        }
    }
    if n % B::WORD_BITS != 0 {
        ctx.bucket("conv:len-not-multiple-of-target-word");
    }
    if A::WORD_BITS != B::WORD_BITS {
        ctx.bucket("conv:different-word-sizes");
    }
    if matches!(a.via, Via::Spare(_) | Via::HeapShort) && A::FIXED_CAP.is_none() {
        ctx.bucket("conv:source-spare-or-heap-short");
    }
    let sig = format!("{}->{}", type_class(A::IDX), type_class(B::IDX));
    let cs = || Case::new("conv").with("a", a.enc()).with("to", B::IDX).enc();
    ctx.sample(wl, cs);
    let r_ref = guarded(|| <A as Pair<B>>::conv_ref(&av));
    let r_val = guarded(|| <A as Pair<B>>::conv_val(av.clone()));
    let judge_one = |ctx: &mut Ctx, form: &str, r: Result<Result<B, String>, crate::exec::PanicInfo>| match r {
        Ok(Ok(v)) => {
            if fits {
                check_result::<B>(ctx, &format!("convert({})", form), &sig, &cs(), &v, &a.bits, h % 17 == 0);
            } else {
                ctx.violation(
                    &format!("convert({}):overflow-accepted", form),
                    &sig,
                    &cs(),
                    format!("{} (len {}) -> {} returned Ok(len {}) although the capacity is {:?}", A::NAME, n, B::NAME, v.len(), B::FIXED_CAP),
                );
            }
        }
        Ok(Err(e)) => {
            if fits || !e.contains("NotEnoughCapacity") {
                ctx.violation(&format!("convert({}):wrong-error", form), &sig, &cs(), format!("{} (len {}) -> {} returned Err({})", A::NAME, n, B::NAME, e));
            } else {
                ctx.panics_expected += 1;
            }
        }
        Err(p) => ctx.violation(&format!("convert({}):panicked", form), &sig, &cs(), format!("{} (len {}) -> {} panicked: {}", A::NAME, n, B::NAME, p.short())),
    };
    judge_one(ctx, "by-ref", r_ref);
    match r_val {
        Ok(Some(r)) => {
            ctx.bucket("conv:by-value-form");
            judge_one(ctx, "by-value", Ok(r))
        }
        Ok(None) => {}
        Err(p) => judge_one(ctx, "by-value", Err(p)),
    }
    // the source is untouched by the by-reference form
    if let Ok(bits) = guarded(|| read_bits(&av)) {
        if bits != a.bits {
            ctx.violation("convert:source-changed", &sig, &cs(), format!("source now {}", model::to_str(&bits)));
        }
    }
}

fn judge_conv(ctx: &mut Ctx, case: &Case, wl: &str) {
    let a = case.spec("a");
    let to = case.usize("to");
    with_type!(a.ty, A, {
        with_type!(to, B, { conv_pair::<A, B>(ctx, &a, wl) })
    })
}

fn judge_rebuild<A: Subject + AllPairs>(ctx: &mut Ctx, case: &Case, wl: &str) {
    let a = case.spec("a");
    let (av, _) = build::<A>(&a);
    let h = sig_hash(&[A::IDX as u64, 1201, a.bits.len() as u64, model::hash_bits(&a.bits), model::hash64(a.via.enc().as_bytes())]);
    let sig = format!("{}|new(into_inner)", type_class(A::IDX));
    let cs = || case.enc();
    match guarded(|| av.clone().rebuild()) {
        Ok(Some(v)) => {
            ctx.eval(h, !a.bits.is_empty());
            ctx.bucket("rebuild");
            ctx.sample(wl, cs);
            check_result::<A>(ctx, "new(into_inner)", &sig, &cs(), &v, &a.bits, h % 7 == 0);
            if let Ok(false) = guarded(|| v == av) {
                ctx.violation("new(into_inner):not-equal", &sig, &cs(), "rebuilt vector != original".to_string());
            }
        }
        Ok(None) => {}
        Err(p) => ctx.violation("new(into_inner):panicked", &sig, &cs(), p.short()),
    }
}

pub fn judge(ctx: &mut Ctx, case: &Case, wl: &str) {
    match case.kind.as_str() {
        "fromuint" | "fromslice" => {
            let ty = case.usize("ty");
            with_type!(ty, A, {
                if case.kind == "fromuint" {
                    judge_fromuint::<A>(ctx, case, wl)
                } else {
                    judge_fromslice::<A>(ctx, case, wl)
                }
            })
        }
        "touint" => {
            let ty = case.spec("a").ty;
            with_type!(ty, A, { judge_touint::<A>(ctx, case, wl) })
        }
        "bitconv" => judge_bitconv(ctx, case, wl),
        "conv" => judge_conv(ctx, case, wl),
        "rebuild" => {
            let ty = case.spec("a").ty;
            with_type!(ty, A, { judge_rebuild::<A>(ctx, case, wl) })
        }
        #[cfg(feature = "hooks")]
        "getint" | "setint" => crate::props::prim::judge(ctx, case, wl),
        k => panic!("HARNESS-ERROR: conv cannot judge case kind {}", k),
    }
}

pub fn replay(ctx: &mut Ctx, case: &Case) {
    judge(ctx, case, "replay")
}

fn uint_lattice(uty: UTy, rng: &mut Rng) -> Vec<u128> {
    let mut v = vec![0u128, 1, 2, uty.max(), uty.max() - 1];
    for k in [7usize, 8, 9, 15, 16, 17, 23, 24, 25, 31, 32, 33, 47, 48, 49, 63, 64, 65, 127] {
        if k < uty.bits() {
            v.push(1u128 << k);
            v.push((1u128 << k) - 1);
            v.push((1u128 << k) + 1);
        }
    }
    for _ in 0..6 {
        v.push(rng.u128() & uty.max());
        v.push((rng.u128() & uty.max()) >> rng.below(uty.bits()));
    }
    v.sort();
    v.dedup();
    v
}

fn run_c11(ctx: &mut Ctx) {
    let tier = ctx.tier;
    let mut rng = Rng::derive(ctx.seed, 0x1111, 0);
    // every u8 and (thorough: every, quick: 1/16 + corners) u16 value into every type
    for ty in 0..NTYPES {
        if !ctx.mine() {
            continue;
        }
        for x in 0..=255u128 {
            for by_ref in [false, true] {
                judge(ctx, &Case::new("fromuint").with("ty", ty).with("x", UInt::U8(x as u8).enc()).with("ref", by_ref as u8), "W1-all-u8");
            }
        }
        let step = tier.pick(257, 1, 1);
        let mut x = 0u128;
        while x <= 65535 {
            judge(ctx, &Case::new("fromuint").with("ty", ty).with("x", UInt::U16(x as u16).enc()).with("ref", (x & 1) as u8), "W1-all-u16");
            x += step;
        }
        for uty in ALL_UTY {
            for v in uint_lattice(uty, &mut rng) {
                for by_ref in [false, true] {
                    judge(ctx, &Case::new("fromuint").with("ty", ty).with("x", uty.make(v).enc()).with("ref", by_ref as u8), "W2-integer-lattice");
                }
            }
        }
        // slices of 0..=5 elements of every width
        for uty in ALL_UTY {
            for count in 0..=5usize {
                for rep in 0..tier.pick(1, 40, 200) {
                    let vals: Vec<u128> = (0..count)
                        .map(|i| match rep {
                            0 => (i as u128 + 1) & uty.max(),
                            1 => uty.max(),
                            _ => rng.u128() & uty.max(),
                        })
                        .collect();
                    let vs = if vals.is_empty() { "-".to_string() } else { vals.iter().map(|v| v.to_string()).collect::<Vec<_>>().join(",") };
                    judge(ctx, &Case::new("fromslice").with("ty", ty).with("uty", uty.name()).with("vals", vs), "W-slices");
                }
            }
        }
    }
    // longer slices into the dynamic and auto types (and, over capacity, into the fixed ones)
    for ty in 0..NTYPES {
        if !ctx.mine() {
            continue;
        }
        for uty in ALL_UTY {
            for count in [6usize, 8, 9, 16, 17, 33, 64, 65, 100] {
                let vals: Vec<u128> = (0..count).map(|i| if i % 3 == 0 { uty.max() } else { rng.u128() & uty.max() }).collect();
                let vs = vals.iter().map(|v| v.to_string()).collect::<Vec<_>>().join(",");
                judge(ctx, &Case::new("fromslice").with("ty", ty).with("uty", uty.name()).with("vals", vs), "W-long-slices");
            }
        }
    }
    // every vector of len <= k (all values) and lattice vectors into every uN, by reference and by value
    let k = tier.pick(4, 11, 13);
    for ty in 0..NTYPES {
        let cap = TYPE_FIXED_CAP[ty].unwrap_or(usize::MAX);
        for n in 0..=k.min(cap) {
            if !ctx.mine() {
                continue;
            }
            for va in gen::all_values(n) {
                let a = Spec::set(ty, va);
                for uty in ALL_UTY {
                    for by_ref in [false, true] {
                        judge(ctx, &Case::new("touint").with("a", a.enc()).with("uty", uty.name()).with("ref", by_ref as u8), "W1-small-exhaustive");
                    }
                }
            }
        }
        let w = TYPE_WORD_BITS[ty];
        for n in gen::boundary_lens(w, 8, TYPE_FIXED_CAP[ty], tier.pick(140, 257, 300)) {
            let vals = gen::lattice(n, w, &mut rng);
            if !ctx.mine() {
                continue;
            }
            for va in &vals {
                for via in [Via::Set, via_for(ty, &mut rng), Via::HeapShort] {
                    // values that just fit / just do not fit each width: truncate the lattice value's high part
                    for uty in ALL_UTY {
                        let a = Spec::new(ty, va.clone(), via);
                        judge(ctx, &Case::new("touint").with("a", a.enc()).with("uty", uty.name()).with("ref", 1), "W2-word-boundary-lattice");
                        let mut small = va.clone();
                        for (i, x) in small.iter_mut().enumerate() {
                            if i >= uty.bits() {
                                *x = false;
                            }
                        }
                        let a2 = Spec::new(ty, small.clone(), via);
                        judge(ctx, &Case::new("touint").with("a", a2.enc()).with("uty", uty.name()).with("ref", 0), "W2-word-boundary-lattice");
                        if n > uty.bits() {
                            small[uty.bits()] = true;
                            let a3 = Spec::new(ty, small, via);
                            judge(ctx, &Case::new("touint").with("a", a3.enc()).with("uty", uty.name()).with("ref", 1), "W2-word-boundary-lattice");
                        }
                    }
                }
            }
        }
    }
    // seeded random: integers with a random number of significant bits into every type; random vectors into every integer type
    {
        let per = tier.pick(100, 3_000_000, 30_000_000) / ctx.nworkers + 1;
        let mut rng = Rng::derive(ctx.seed, 0x1112, ctx.worker as u64);
        for i in 0..per {
            let ty = rng.below(NTYPES);
            let uty = ALL_UTY[rng.below(6)];
            if i % 2 == 0 {
                let sig = rng.below(uty.bits() + 1);
                let v = if sig == 0 { 0 } else { (rng.u128() & crate::model::mask128(sig)) | (1u128 << (sig - 1)) };
                judge(ctx, &Case::new("fromuint").with("ty", ty).with("x", uty.make(v).enc()).with("ref", (i / 2 % 2) as u8), "W3-seeded-random");
            } else {
                let n = gen::random_len(ty, 300, &mut rng);
                let mut bits = gen::random_bits(n, &mut rng);
                // half of the time small enough to fit some integer type
                if rng.bool() {
                    let keep = rng.below(uty.bits() + 2);
                    for (j, b) in bits.iter_mut().enumerate() {
                        if j >= keep {
                            *b = false;
                        }
                    }
                }
                let a = Spec::new(ty, bits, via_for(ty, &mut rng));
                judge(ctx, &Case::new("touint").with("a", a.enc()).with("uty", uty.name()).with("ref", (i / 2 % 2) as u8), "W3-seeded-random");
            }
        }
    }
    if ctx.worker == 0 {
        for x in [0u128, 1, 2, 3, 255, 256, 65535, 65536, u64::MAX as u128, u128::MAX, 1 << 127, 1 << 64] {
            judge(ctx, &Case::new("bitconv").with("x", x), "W-bit-conversions");
        }
    }
}

fn run_c12(ctx: &mut Ctx) {
    let tier = ctx.tier;
    let mut rng = Rng::derive(ctx.seed, 0x1212, 0);
    for ta in 0..NTYPES {
        for tb in 0..NTYPES {
            if !ctx.mine() {
                continue;
            }
            let capa = TYPE_FIXED_CAP[ta];
            let limit = capa.unwrap_or(tier.pick(140, 200, 260)).min(tier.pick(140, 200, 260));
            let wa = TYPE_WORD_BITS[ta];
            // every source length (so every "not a multiple of the target word" case)
            let lens: Vec<usize> = if tier == Tier::Tiny { gen::boundary_lens(wa, TYPE_WORD_BITS[tb], capa, limit) } else { (0..=limit).collect() };
            for n in lens {
                let vals = if tier == Tier::Thorough { gen::lattice(n, wa, &mut rng) } else { gen::lattice_small(n, wa, &mut rng) };
                let keep = tier.pick(2, 8, vals.len());
                for _ in 0..keep.min(vals.len()) {
                    let va = rng.pick(&vals).clone();
                    let a = Spec::new(ta, va, via_for(ta, &mut rng));
                    judge(ctx, &Case::new("conv").with("a", a.enc()).with("to", tb), "W-all-lengths-lattice");
                }
            }
            // exhaustive tiny values
            for n in 0..=tier.pick(2, 4, 6).min(capa.unwrap_or(99)) {
                for va in gen::all_values(n) {
                    judge(ctx, &Case::new("conv").with("a", Spec::set(ta, va).enc()).with("to", tb), "W1-small-exhaustive");
                }
            }
        }
        // long sources (dynamic / auto): into each other and (must fail) into the fixed types
        if TYPE_FIXED_CAP[ta].is_none() && ctx.mine() {
            for n in gen::long_lens(tier) {
                for va in gen::lattice_small(n, 64, &mut rng) {
                    let a = Spec::new(ta, va, via_for(ta, &mut rng));
                    for tb in [IDX_BVD, IDX_BV, 11usize, 9, 0] {
                        judge(ctx, &Case::new("conv").with("a", a.enc()).with("to", tb), "W-long-sources");
                    }
                }
            }
        }
        // new(into_inner)
        if ctx.mine() {
            let wa = TYPE_WORD_BITS[ta];
            for n in gen::boundary_lens(wa, 8, TYPE_FIXED_CAP[ta], 200) {
                for va in gen::lattice_small(n, wa, &mut rng) {
                    for via in VIAS_BASIC {
                        let via = if matches!(via, Via::Spare(_)) && TYPE_FIXED_CAP[ta].is_some() { Via::Set } else { via };
                        judge(ctx, &Case::new("rebuild").with("a", Spec::new(ta, va.clone(), via).enc()), "W-rebuild");
                    }
                }
            }
        }
    }
    #[cfg(feature = "hooks")]
    crate::props::prim::run_slices(ctx);
}

pub fn run(ctx: &mut Ctx) {
    match ctx.prop.as_str() {
        "C11" => run_c11(ctx),
        "C12" => run_c12(ctx),
        p => panic!("HARNESS-ERROR: conv cannot run {}", p),
    }
}

pub const REQUIRED_C11: &[&str] = &[
    "from:u8", "from:u16", "from:u32", "from:u64", "from:u128", "from:usize", "from:value-straddles-capacity", "from:overflow-expected",
    "to:u8", "to:u16", "to:u32", "to:u64", "to:u128", "to:usize", "to:empty-vector", "to:value-straddles-width", "to:long-vector-small-value",
    "slice:empty", "slice:exactly-capacity", "slice:over-capacity", "bit-conversions",
];
pub const REQUIRED_C12: &[&str] = &[
    "conv:len=target-capacity", "conv:len=target-capacity+1", "conv:len-not-multiple-of-target-word", "conv:different-word-sizes",
    "conv:source-spare-or-heap-short", "conv:by-value-form", "rebuild",
];
