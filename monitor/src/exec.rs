//! Client-boundary execution: every call into bva runs under `catch_unwind`, with a process-wide
//! silent panic hook that stores message and location for the recorder.

use std::cell::RefCell;
use std::panic::{catch_unwind, AssertUnwindSafe};

thread_local! {
    static LAST_PANIC: RefCell<Option<String>> = const { RefCell::new(None) };
    static GUARD_DEPTH: std::cell::Cell<u32> = const { std::cell::Cell::new(0) };
}

pub fn install_panic_hook() {
    std::panic::set_hook(Box::new(|info| {
        let msg = if let Some(s) = info.payload().downcast_ref::<&str>() {
            s.to_string()
        } else if let Some(s) = info.payload().downcast_ref::<String>() {
            s.clone()
        } else {
            "<non-string panic>".to_string()
        };
        let loc = info
            .location()
            .map(|l| format!("{}:{}", l.file(), l.line()))
            .unwrap_or_default();
        // a panic raised by the harness itself (not inside bva, not inside std on bva's behalf) is a harness error:
        // make it visible; the worker dies and the run is reported as inconclusive
        let unguarded = !GUARD_DEPTH.with(|d| d.get() > 0);
        if msg.starts_with(crate::model::ORACLE_SELF_CHECK) || msg.starts_with("HARNESS-ERROR") || unguarded {
            eprintln!("harness panic: {} @ {}", msg, loc);
        }
        LAST_PANIC.with(|c| *c.borrow_mut() = Some(format!("{} @ {}", msg, loc)));
    }));
}

#[derive(Clone, Debug, PartialEq, Eq)]
pub struct PanicInfo(pub String);

impl PanicInfo {
    /// true when the panic came from the harness/oracle itself (maps to *inconclusive*)
    pub fn is_harness(&self) -> bool {
        self.0.starts_with(crate::model::ORACLE_SELF_CHECK) || self.0.starts_with("HARNESS-ERROR")
    }
    /// location inside bva (src/xxx.rs:line) if any, for signatures
    pub fn short(&self) -> String {
        let s = &self.0;
        let s: String = s.chars().take(160).collect();
        s
    }
}

/// Run `f`, returning its value or the captured panic.
pub fn guarded<R>(f: impl FnOnce() -> R) -> Result<R, PanicInfo> {
    LAST_PANIC.with(|c| *c.borrow_mut() = None);
    GUARD_DEPTH.with(|d| d.set(d.get() + 1));
    let r = catch_unwind(AssertUnwindSafe(f));
    GUARD_DEPTH.with(|d| d.set(d.get().saturating_sub(1)));
    match r {
        Ok(r) => Ok(r),
        Err(_) => {
            let msg = LAST_PANIC
                .with(|c| c.borrow_mut().take())
                .unwrap_or_else(|| "<panic without message>".to_string());
            let p = PanicInfo(msg);
            if p.is_harness() {
                crate::report::note_harness_error(&p.0);
            }
            Err(p)
        }
    }
}
