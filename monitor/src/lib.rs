//! bva-monitor: runtime monitors for the bva properties C01-C20 (see /verif/DESIGN.md).
#![allow(clippy::too_many_arguments, clippy::type_complexity, clippy::needless_range_loop)]

pub mod battery;
pub mod case;
pub mod exec;
pub mod fmtgen;
pub mod gen;
pub mod history;
pub mod judge;
pub mod model;
pub mod props;
pub mod report;
pub mod rng;
pub mod spec;
pub mod types;
