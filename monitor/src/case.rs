//! Replayable case encoding: `kind key=value key=value ...` (values contain no spaces).

use std::collections::BTreeMap;

use crate::model::{self, Bits, Op};
use crate::spec::Spec;
use crate::types::{Form, UInt};

#[derive(Clone, Debug)]
pub struct Case {
    pub kind: String,
    pub kv: BTreeMap<String, String>,
}

impl Case {
    pub fn new(kind: &str) -> Case {
        Case { kind: kind.to_string(), kv: BTreeMap::new() }
    }
    pub fn with(mut self, k: &str, v: impl ToString) -> Case {
        self.kv.insert(k.to_string(), v.to_string());
        self
    }
    pub fn set(&mut self, k: &str, v: impl ToString) {
        self.kv.insert(k.to_string(), v.to_string());
    }
    pub fn enc(&self) -> String {
        let mut s = self.kind.clone();
        for (k, v) in &self.kv {
            s.push(' ');
            s.push_str(k);
            s.push('=');
            s.push_str(v);
        }
        s
    }
    pub fn dec(s: &str) -> Option<Case> {
        let mut it = s.split(' ').filter(|t| !t.is_empty());
        let kind = it.next()?.to_string();
        let mut kv = BTreeMap::new();
        for t in it {
            let (k, v) = t.split_once('=')?;
            kv.insert(k.to_string(), v.to_string());
        }
        Some(Case { kind, kv })
    }
    pub fn get(&self, k: &str) -> &str {
        self.kv
            .get(k)
            .map(|s| s.as_str())
            .unwrap_or_else(|| panic!("HARNESS-ERROR: case lacks key {} : {}", k, self.enc()))
    }
    pub fn opt(&self, k: &str) -> Option<&str> {
        self.kv.get(k).map(|s| s.as_str())
    }
    pub fn usize(&self, k: &str) -> usize {
        self.get(k)
            .parse()
            .unwrap_or_else(|_| panic!("HARNESS-ERROR: bad usize for {} : {}", k, self.enc()))
    }
    pub fn u128(&self, k: &str) -> u128 {
        self.get(k)
            .parse()
            .unwrap_or_else(|_| panic!("HARNESS-ERROR: bad u128 for {} : {}", k, self.enc()))
    }
    pub fn spec(&self, k: &str) -> Spec {
        Spec::dec(self.get(k))
            .unwrap_or_else(|| panic!("HARNESS-ERROR: bad spec for {} : {}", k, self.enc()))
    }
    pub fn bits(&self, k: &str) -> Bits {
        model::from_str(self.get(k))
    }
    pub fn op(&self, k: &str) -> Op {
        Op::parse(self.get(k)).unwrap_or_else(|| panic!("HARNESS-ERROR: bad op : {}", self.enc()))
    }
    pub fn form(&self, k: &str) -> Form {
        Form::parse(self.get(k)).unwrap_or_else(|| panic!("HARNESS-ERROR: bad form : {}", self.enc()))
    }
    pub fn uint(&self, k: &str) -> UInt {
        UInt::dec(self.get(k)).unwrap_or_else(|| panic!("HARNESS-ERROR: bad uint : {}", self.enc()))
    }
    pub fn flag(&self, k: &str) -> bool {
        self.opt(k).map_or(false, |v| v == "1" || v == "true")
    }
}

pub fn hex_enc(bytes: &[u8]) -> String {
    if bytes.is_empty() {
        return "-".to_string();
    }
    bytes.iter().map(|b| format!("{:02x}", b)).collect()
}

pub fn hex_dec(s: &str) -> Vec<u8> {
    if s == "-" {
        return vec![];
    }
    (0..s.len() / 2)
        .map(|i| u8::from_str_radix(&s[2 * i..2 * i + 2], 16).expect("HARNESS-ERROR: bad hex"))
        .collect()
}
