//! GENERATED (see DESIGN.md section 11): the complete format matrix of C14 - radix {Display, b, o, x, X} x sign {'', +} x
//! alternate {'', #} x {no padding, zero padding, width, left/centre/right alignment, custom fills} x widths {3, 21} plus a few
//! precision / very wide specs. `fmt_full_sel(v, sel, of)` formats the specs whose index is `sel` modulo `of` (the five plain
//! specs always), so that a run spreads the matrix over its cases instead of formatting 350 strings per case.

use std::fmt::{Binary, Display, LowerHex, Octal, UpperHex};

pub const FMT_FULL_SPECS: &[&str] = &[
    "{}",
    "{:03}",
    "{:021}",
    "{:3}",
    "{:21}",
    "{:<3}",
    "{:<21}",
    "{:^3}",
    "{:^21}",
    "{:>3}",
    "{:>21}",
    "{:*^3}",
    "{:*^21}",
    "{:_>3}",
    "{:_>21}",
    "{:0<3}",
    "{:0<21}",
    "{:#}",
    "{:#03}",
    "{:#021}",
    "{:#3}",
    "{:#21}",
    "{:<#3}",
    "{:<#21}",
    "{:^#3}",
    "{:^#21}",
    "{:>#3}",
    "{:>#21}",
    "{:*^#3}",
    "{:*^#21}",
    "{:_>#3}",
    "{:_>#21}",
    "{:0<#3}",
    "{:0<#21}",
    "{:+}",
    "{:+03}",
    "{:+021}",
    "{:+3}",
    "{:+21}",
    "{:<+3}",
    "{:<+21}",
    "{:^+3}",
    "{:^+21}",
    "{:>+3}",
    "{:>+21}",
    "{:*^+3}",
    "{:*^+21}",
    "{:_>+3}",
    "{:_>+21}",
    "{:0<+3}",
    "{:0<+21}",
    "{:+#}",
    "{:+#03}",
    "{:+#021}",
    "{:+#3}",
    "{:+#21}",
    "{:<+#3}",
    "{:<+#21}",
    "{:^+#3}",
    "{:^+#21}",
    "{:>+#3}",
    "{:>+#21}",
    "{:*^+#3}",
    "{:*^+#21}",
    "{:_>+#3}",
    "{:_>+#21}",
    "{:0<+#3}",
    "{:0<+#21}",
    "{:b}",
    "{:03b}",
    "{:021b}",
    "{:3b}",
    "{:21b}",
    "{:<3b}",
    "{:<21b}",
    "{:^3b}",
    "{:^21b}",
    "{:>3b}",
    "{:>21b}",
    "{:*^3b}",
    "{:*^21b}",
    "{:_>3b}",
    "{:_>21b}",
    "{:0<3b}",
    "{:0<21b}",
    "{:#b}",
    "{:#03b}",
    "{:#021b}",
    "{:#3b}",
    "{:#21b}",
    "{:<#3b}",
    "{:<#21b}",
    "{:^#3b}",
    "{:^#21b}",
    "{:>#3b}",
    "{:>#21b}",
    "{:*^#3b}",
    "{:*^#21b}",
    "{:_>#3b}",
    "{:_>#21b}",
    "{:0<#3b}",
    "{:0<#21b}",
    "{:+b}",
    "{:+03b}",
    "{:+021b}",
    "{:+3b}",
    "{:+21b}",
    "{:<+3b}",
    "{:<+21b}",
    "{:^+3b}",
    "{:^+21b}",
    "{:>+3b}",
    "{:>+21b}",
    "{:*^+3b}",
    "{:*^+21b}",
    "{:_>+3b}",
    "{:_>+21b}",
    "{:0<+3b}",
    "{:0<+21b}",
    "{:+#b}",
    "{:+#03b}",
    "{:+#021b}",
    "{:+#3b}",
    "{:+#21b}",
    "{:<+#3b}",
    "{:<+#21b}",
    "{:^+#3b}",
    "{:^+#21b}",
    "{:>+#3b}",
    "{:>+#21b}",
    "{:*^+#3b}",
    "{:*^+#21b}",
    "{:_>+#3b}",
    "{:_>+#21b}",
    "{:0<+#3b}",
    "{:0<+#21b}",
    "{:o}",
    "{:03o}",
    "{:021o}",
    "{:3o}",
    "{:21o}",
    "{:<3o}",
    "{:<21o}",
    "{:^3o}",
    "{:^21o}",
    "{:>3o}",
    "{:>21o}",
    "{:*^3o}",
    "{:*^21o}",
    "{:_>3o}",
    "{:_>21o}",
    "{:0<3o}",
    "{:0<21o}",
    "{:#o}",
    "{:#03o}",
    "{:#021o}",
    "{:#3o}",
    "{:#21o}",
    "{:<#3o}",
    "{:<#21o}",
    "{:^#3o}",
    "{:^#21o}",
    "{:>#3o}",
    "{:>#21o}",
    "{:*^#3o}",
    "{:*^#21o}",
    "{:_>#3o}",
    "{:_>#21o}",
    "{:0<#3o}",
    "{:0<#21o}",
    "{:+o}",
    "{:+03o}",
    "{:+021o}",
    "{:+3o}",
    "{:+21o}",
    "{:<+3o}",
    "{:<+21o}",
    "{:^+3o}",
    "{:^+21o}",
    "{:>+3o}",
    "{:>+21o}",
    "{:*^+3o}",
    "{:*^+21o}",
    "{:_>+3o}",
    "{:_>+21o}",
    "{:0<+3o}",
    "{:0<+21o}",
    "{:+#o}",
    "{:+#03o}",
    "{:+#021o}",
    "{:+#3o}",
    "{:+#21o}",
    "{:<+#3o}",
    "{:<+#21o}",
    "{:^+#3o}",
    "{:^+#21o}",
    "{:>+#3o}",
    "{:>+#21o}",
    "{:*^+#3o}",
    "{:*^+#21o}",
    "{:_>+#3o}",
    "{:_>+#21o}",
    "{:0<+#3o}",
    "{:0<+#21o}",
    "{:x}",
    "{:03x}",
    "{:021x}",
    "{:3x}",
    "{:21x}",
    "{:<3x}",
    "{:<21x}",
    "{:^3x}",
    "{:^21x}",
    "{:>3x}",
    "{:>21x}",
    "{:*^3x}",
    "{:*^21x}",
    "{:_>3x}",
    "{:_>21x}",
    "{:0<3x}",
    "{:0<21x}",
    "{:#x}",
    "{:#03x}",
    "{:#021x}",
    "{:#3x}",
    "{:#21x}",
    "{:<#3x}",
    "{:<#21x}",
    "{:^#3x}",
    "{:^#21x}",
    "{:>#3x}",
    "{:>#21x}",
    "{:*^#3x}",
    "{:*^#21x}",
    "{:_>#3x}",
    "{:_>#21x}",
    "{:0<#3x}",
    "{:0<#21x}",
    "{:+x}",
    "{:+03x}",
    "{:+021x}",
    "{:+3x}",
    "{:+21x}",
    "{:<+3x}",
    "{:<+21x}",
    "{:^+3x}",
    "{:^+21x}",
    "{:>+3x}",
    "{:>+21x}",
    "{:*^+3x}",
    "{:*^+21x}",
    "{:_>+3x}",
    "{:_>+21x}",
    "{:0<+3x}",
    "{:0<+21x}",
    "{:+#x}",
    "{:+#03x}",
    "{:+#021x}",
    "{:+#3x}",
    "{:+#21x}",
    "{:<+#3x}",
    "{:<+#21x}",
    "{:^+#3x}",
    "{:^+#21x}",
    "{:>+#3x}",
    "{:>+#21x}",
    "{:*^+#3x}",
    "{:*^+#21x}",
    "{:_>+#3x}",
    "{:_>+#21x}",
    "{:0<+#3x}",
    "{:0<+#21x}",
    "{:X}",
    "{:03X}",
    "{:021X}",
    "{:3X}",
    "{:21X}",
    "{:<3X}",
    "{:<21X}",
    "{:^3X}",
    "{:^21X}",
    "{:>3X}",
    "{:>21X}",
    "{:*^3X}",
    "{:*^21X}",
    "{:_>3X}",
    "{:_>21X}",
    "{:0<3X}",
    "{:0<21X}",
    "{:#X}",
    "{:#03X}",
    "{:#021X}",
    "{:#3X}",
    "{:#21X}",
    "{:<#3X}",
    "{:<#21X}",
    "{:^#3X}",
    "{:^#21X}",
    "{:>#3X}",
    "{:>#21X}",
    "{:*^#3X}",
    "{:*^#21X}",
    "{:_>#3X}",
    "{:_>#21X}",
    "{:0<#3X}",
    "{:0<#21X}",
    "{:+X}",
    "{:+03X}",
    "{:+021X}",
    "{:+3X}",
    "{:+21X}",
    "{:<+3X}",
    "{:<+21X}",
    "{:^+3X}",
    "{:^+21X}",
    "{:>+3X}",
    "{:>+21X}",
    "{:*^+3X}",
    "{:*^+21X}",
    "{:_>+3X}",
    "{:_>+21X}",
    "{:0<+3X}",
    "{:0<+21X}",
    "{:+#X}",
    "{:+#03X}",
    "{:+#021X}",
    "{:+#3X}",
    "{:+#21X}",
    "{:<+#3X}",
    "{:<+#21X}",
    "{:^+#3X}",
    "{:^+#21X}",
    "{:>+#3X}",
    "{:>+#21X}",
    "{:*^+#3X}",
    "{:*^+#21X}",
    "{:_>+#3X}",
    "{:_>+#21X}",
    "{:0<+#3X}",
    "{:0<+#21X}",
    "{:.3}",
    "{:10.2}",
    "{:+.0}",
    "{:#.5x}",
    "{:0>+6}",
    "{:#066b}",
    "{:#0130b}",
    "{:070}",
    "{:^+#45o}",
    "{:<#040X}",
];

pub fn fmt_full_sel<T: Display + Binary + Octal + LowerHex + UpperHex>(v: &T, sel: usize, of: usize) -> Vec<(usize, String)> {
    let mut out = Vec::with_capacity(FMT_FULL_SPECS.len() / of + 6);
    if true {
        out.push((0, format!("{}", v)));
    }
    if 1 % of == sel {
        out.push((1, format!("{:03}", v)));
    }
    if 2 % of == sel {
        out.push((2, format!("{:021}", v)));
    }
    if 3 % of == sel {
        out.push((3, format!("{:3}", v)));
    }
    if 4 % of == sel {
        out.push((4, format!("{:21}", v)));
    }
    if 5 % of == sel {
        out.push((5, format!("{:<3}", v)));
    }
    if 6 % of == sel {
        out.push((6, format!("{:<21}", v)));
    }
    if 7 % of == sel {
        out.push((7, format!("{:^3}", v)));
    }
    if 8 % of == sel {
        out.push((8, format!("{:^21}", v)));
    }
    if 9 % of == sel {
        out.push((9, format!("{:>3}", v)));
    }
    if 10 % of == sel {
        out.push((10, format!("{:>21}", v)));
    }
    if 11 % of == sel {
        out.push((11, format!("{:*^3}", v)));
    }
    if 12 % of == sel {
        out.push((12, format!("{:*^21}", v)));
    }
    if 13 % of == sel {
        out.push((13, format!("{:_>3}", v)));
    }
    if 14 % of == sel {
        out.push((14, format!("{:_>21}", v)));
    }
    if 15 % of == sel {
        out.push((15, format!("{:0<3}", v)));
    }
    if 16 % of == sel {
        out.push((16, format!("{:0<21}", v)));
    }
    if 17 % of == sel {
        out.push((17, format!("{:#}", v)));
    }
    if 18 % of == sel {
        out.push((18, format!("{:#03}", v)));
    }
    if 19 % of == sel {
        out.push((19, format!("{:#021}", v)));
    }
    if 20 % of == sel {
        out.push((20, format!("{:#3}", v)));
    }
    if 21 % of == sel {
        out.push((21, format!("{:#21}", v)));
    }
    if 22 % of == sel {
        out.push((22, format!("{:<#3}", v)));
    }
    if 23 % of == sel {
        out.push((23, format!("{:<#21}", v)));
    }
    if 24 % of == sel {
        out.push((24, format!("{:^#3}", v)));
    }
    if 25 % of == sel {
        out.push((25, format!("{:^#21}", v)));
    }
    if 26 % of == sel {
        out.push((26, format!("{:>#3}", v)));
    }
    if 27 % of == sel {
        out.push((27, format!("{:>#21}", v)));
    }
    if 28 % of == sel {
        out.push((28, format!("{:*^#3}", v)));
    }
    if 29 % of == sel {
        out.push((29, format!("{:*^#21}", v)));
    }
    if 30 % of == sel {
        out.push((30, format!("{:_>#3}", v)));
    }
    if 31 % of == sel {
        out.push((31, format!("{:_>#21}", v)));
    }
    if 32 % of == sel {
        out.push((32, format!("{:0<#3}", v)));
    }
    if 33 % of == sel {
        out.push((33, format!("{:0<#21}", v)));
    }
    if 34 % of == sel {
        out.push((34, format!("{:+}", v)));
    }
    if 35 % of == sel {
        out.push((35, format!("{:+03}", v)));
    }
    if 36 % of == sel {
        out.push((36, format!("{:+021}", v)));
    }
    if 37 % of == sel {
        out.push((37, format!("{:+3}", v)));
    }
    if 38 % of == sel {
        out.push((38, format!("{:+21}", v)));
    }
    if 39 % of == sel {
        out.push((39, format!("{:<+3}", v)));
    }
    if 40 % of == sel {
        out.push((40, format!("{:<+21}", v)));
    }
    if 41 % of == sel {
        out.push((41, format!("{:^+3}", v)));
    }
    if 42 % of == sel {
        out.push((42, format!("{:^+21}", v)));
    }
    if 43 % of == sel {
        out.push((43, format!("{:>+3}", v)));
    }
    if 44 % of == sel {
        out.push((44, format!("{:>+21}", v)));
    }
    if 45 % of == sel {
        out.push((45, format!("{:*^+3}", v)));
    }
    if 46 % of == sel {
        out.push((46, format!("{:*^+21}", v)));
    }
    if 47 % of == sel {
        out.push((47, format!("{:_>+3}", v)));
    }
    if 48 % of == sel {
        out.push((48, format!("{:_>+21}", v)));
    }
    if 49 % of == sel {
        out.push((49, format!("{:0<+3}", v)));
    }
    if 50 % of == sel {
        out.push((50, format!("{:0<+21}", v)));
    }
    if 51 % of == sel {
        out.push((51, format!("{:+#}", v)));
    }
    if 52 % of == sel {
        out.push((52, format!("{:+#03}", v)));
    }
    if 53 % of == sel {
        out.push((53, format!("{:+#021}", v)));
    }
    if 54 % of == sel {
        out.push((54, format!("{:+#3}", v)));
    }
    if 55 % of == sel {
        out.push((55, format!("{:+#21}", v)));
    }
    if 56 % of == sel {
        out.push((56, format!("{:<+#3}", v)));
    }
    if 57 % of == sel {
        out.push((57, format!("{:<+#21}", v)));
    }
    if 58 % of == sel {
        out.push((58, format!("{:^+#3}", v)));
    }
    if 59 % of == sel {
        out.push((59, format!("{:^+#21}", v)));
    }
    if 60 % of == sel {
        out.push((60, format!("{:>+#3}", v)));
    }
    if 61 % of == sel {
        out.push((61, format!("{:>+#21}", v)));
    }
    if 62 % of == sel {
        out.push((62, format!("{:*^+#3}", v)));
    }
    if 63 % of == sel {
        out.push((63, format!("{:*^+#21}", v)));
    }
    if 64 % of == sel {
        out.push((64, format!("{:_>+#3}", v)));
    }
    if 65 % of == sel {
        out.push((65, format!("{:_>+#21}", v)));
    }
    if 66 % of == sel {
        out.push((66, format!("{:0<+#3}", v)));
    }
    if 67 % of == sel {
        out.push((67, format!("{:0<+#21}", v)));
    }
    if true {
        out.push((68, format!("{:b}", v)));
    }
    if 69 % of == sel {
        out.push((69, format!("{:03b}", v)));
    }
    if 70 % of == sel {
        out.push((70, format!("{:021b}", v)));
    }
    if 71 % of == sel {
        out.push((71, format!("{:3b}", v)));
    }
    if 72 % of == sel {
        out.push((72, format!("{:21b}", v)));
    }
    if 73 % of == sel {
        out.push((73, format!("{:<3b}", v)));
    }
    if 74 % of == sel {
        out.push((74, format!("{:<21b}", v)));
    }
    if 75 % of == sel {
        out.push((75, format!("{:^3b}", v)));
    }
    if 76 % of == sel {
        out.push((76, format!("{:^21b}", v)));
    }
    if 77 % of == sel {
        out.push((77, format!("{:>3b}", v)));
    }
    if 78 % of == sel {
        out.push((78, format!("{:>21b}", v)));
    }
    if 79 % of == sel {
        out.push((79, format!("{:*^3b}", v)));
    }
    if 80 % of == sel {
        out.push((80, format!("{:*^21b}", v)));
    }
    if 81 % of == sel {
        out.push((81, format!("{:_>3b}", v)));
    }
    if 82 % of == sel {
        out.push((82, format!("{:_>21b}", v)));
    }
    if 83 % of == sel {
        out.push((83, format!("{:0<3b}", v)));
    }
    if 84 % of == sel {
        out.push((84, format!("{:0<21b}", v)));
    }
    if 85 % of == sel {
        out.push((85, format!("{:#b}", v)));
    }
    if 86 % of == sel {
        out.push((86, format!("{:#03b}", v)));
    }
    if 87 % of == sel {
        out.push((87, format!("{:#021b}", v)));
    }
    if 88 % of == sel {
        out.push((88, format!("{:#3b}", v)));
    }
    if 89 % of == sel {
        out.push((89, format!("{:#21b}", v)));
    }
    if 90 % of == sel {
        out.push((90, format!("{:<#3b}", v)));
    }
    if 91 % of == sel {
        out.push((91, format!("{:<#21b}", v)));
    }
    if 92 % of == sel {
        out.push((92, format!("{:^#3b}", v)));
    }
    if 93 % of == sel {
        out.push((93, format!("{:^#21b}", v)));
    }
    if 94 % of == sel {
        out.push((94, format!("{:>#3b}", v)));
    }
    if 95 % of == sel {
        out.push((95, format!("{:>#21b}", v)));
    }
    if 96 % of == sel {
        out.push((96, format!("{:*^#3b}", v)));
    }
    if 97 % of == sel {
        out.push((97, format!("{:*^#21b}", v)));
    }
    if 98 % of == sel {
        out.push((98, format!("{:_>#3b}", v)));
    }
    if 99 % of == sel {
        out.push((99, format!("{:_>#21b}", v)));
    }
    if 100 % of == sel {
        out.push((100, format!("{:0<#3b}", v)));
    }
    if 101 % of == sel {
        out.push((101, format!("{:0<#21b}", v)));
    }
    if 102 % of == sel {
        out.push((102, format!("{:+b}", v)));
    }
    if 103 % of == sel {
        out.push((103, format!("{:+03b}", v)));
    }
    if 104 % of == sel {
        out.push((104, format!("{:+021b}", v)));
    }
    if 105 % of == sel {
        out.push((105, format!("{:+3b}", v)));
    }
    if 106 % of == sel {
        out.push((106, format!("{:+21b}", v)));
    }
    if 107 % of == sel {
        out.push((107, format!("{:<+3b}", v)));
    }
    if 108 % of == sel {
        out.push((108, format!("{:<+21b}", v)));
    }
    if 109 % of == sel {
        out.push((109, format!("{:^+3b}", v)));
    }
    if 110 % of == sel {
        out.push((110, format!("{:^+21b}", v)));
    }
    if 111 % of == sel {
        out.push((111, format!("{:>+3b}", v)));
    }
    if 112 % of == sel {
        out.push((112, format!("{:>+21b}", v)));
    }
    if 113 % of == sel {
        out.push((113, format!("{:*^+3b}", v)));
    }
    if 114 % of == sel {
        out.push((114, format!("{:*^+21b}", v)));
    }
    if 115 % of == sel {
        out.push((115, format!("{:_>+3b}", v)));
    }
    if 116 % of == sel {
        out.push((116, format!("{:_>+21b}", v)));
    }
    if 117 % of == sel {
        out.push((117, format!("{:0<+3b}", v)));
    }
    if 118 % of == sel {
        out.push((118, format!("{:0<+21b}", v)));
    }
    if 119 % of == sel {
        out.push((119, format!("{:+#b}", v)));
    }
    if 120 % of == sel {
        out.push((120, format!("{:+#03b}", v)));
    }
    if 121 % of == sel {
        out.push((121, format!("{:+#021b}", v)));
    }
    if 122 % of == sel {
        out.push((122, format!("{:+#3b}", v)));
    }
    if 123 % of == sel {
        out.push((123, format!("{:+#21b}", v)));
    }
    if 124 % of == sel {
        out.push((124, format!("{:<+#3b}", v)));
    }
    if 125 % of == sel {
        out.push((125, format!("{:<+#21b}", v)));
    }
    if 126 % of == sel {
        out.push((126, format!("{:^+#3b}", v)));
    }
    if 127 % of == sel {
        out.push((127, format!("{:^+#21b}", v)));
    }
    if 128 % of == sel {
        out.push((128, format!("{:>+#3b}", v)));
    }
    if 129 % of == sel {
        out.push((129, format!("{:>+#21b}", v)));
    }
    if 130 % of == sel {
        out.push((130, format!("{:*^+#3b}", v)));
    }
    if 131 % of == sel {
        out.push((131, format!("{:*^+#21b}", v)));
    }
    if 132 % of == sel {
        out.push((132, format!("{:_>+#3b}", v)));
    }
    if 133 % of == sel {
        out.push((133, format!("{:_>+#21b}", v)));
    }
    if 134 % of == sel {
        out.push((134, format!("{:0<+#3b}", v)));
    }
    if 135 % of == sel {
        out.push((135, format!("{:0<+#21b}", v)));
    }
    if true {
        out.push((136, format!("{:o}", v)));
    }
    if 137 % of == sel {
        out.push((137, format!("{:03o}", v)));
    }
    if 138 % of == sel {
        out.push((138, format!("{:021o}", v)));
    }
    if 139 % of == sel {
        out.push((139, format!("{:3o}", v)));
    }
    if 140 % of == sel {
        out.push((140, format!("{:21o}", v)));
    }
    if 141 % of == sel {
        out.push((141, format!("{:<3o}", v)));
    }
    if 142 % of == sel {
        out.push((142, format!("{:<21o}", v)));
    }
    if 143 % of == sel {
        out.push((143, format!("{:^3o}", v)));
    }
    if 144 % of == sel {
        out.push((144, format!("{:^21o}", v)));
    }
    if 145 % of == sel {
        out.push((145, format!("{:>3o}", v)));
    }
    if 146 % of == sel {
        out.push((146, format!("{:>21o}", v)));
    }
    if 147 % of == sel {
        out.push((147, format!("{:*^3o}", v)));
    }
    if 148 % of == sel {
        out.push((148, format!("{:*^21o}", v)));
    }
    if 149 % of == sel {
        out.push((149, format!("{:_>3o}", v)));
    }
    if 150 % of == sel {
        out.push((150, format!("{:_>21o}", v)));
    }
    if 151 % of == sel {
        out.push((151, format!("{:0<3o}", v)));
    }
    if 152 % of == sel {
        out.push((152, format!("{:0<21o}", v)));
    }
    if 153 % of == sel {
        out.push((153, format!("{:#o}", v)));
    }
    if 154 % of == sel {
        out.push((154, format!("{:#03o}", v)));
    }
    if 155 % of == sel {
        out.push((155, format!("{:#021o}", v)));
    }
    if 156 % of == sel {
        out.push((156, format!("{:#3o}", v)));
    }
    if 157 % of == sel {
        out.push((157, format!("{:#21o}", v)));
    }
    if 158 % of == sel {
        out.push((158, format!("{:<#3o}", v)));
    }
    if 159 % of == sel {
        out.push((159, format!("{:<#21o}", v)));
    }
    if 160 % of == sel {
        out.push((160, format!("{:^#3o}", v)));
    }
    if 161 % of == sel {
        out.push((161, format!("{:^#21o}", v)));
    }
    if 162 % of == sel {
        out.push((162, format!("{:>#3o}", v)));
    }
    if 163 % of == sel {
        out.push((163, format!("{:>#21o}", v)));
    }
    if 164 % of == sel {
        out.push((164, format!("{:*^#3o}", v)));
    }
    if 165 % of == sel {
        out.push((165, format!("{:*^#21o}", v)));
    }
    if 166 % of == sel {
        out.push((166, format!("{:_>#3o}", v)));
    }
    if 167 % of == sel {
        out.push((167, format!("{:_>#21o}", v)));
    }
    if 168 % of == sel {
        out.push((168, format!("{:0<#3o}", v)));
    }
    if 169 % of == sel {
        out.push((169, format!("{:0<#21o}", v)));
    }
    if 170 % of == sel {
        out.push((170, format!("{:+o}", v)));
    }
    if 171 % of == sel {
        out.push((171, format!("{:+03o}", v)));
    }
    if 172 % of == sel {
        out.push((172, format!("{:+021o}", v)));
    }
    if 173 % of == sel {
        out.push((173, format!("{:+3o}", v)));
    }
    if 174 % of == sel {
        out.push((174, format!("{:+21o}", v)));
    }
    if 175 % of == sel {
        out.push((175, format!("{:<+3o}", v)));
    }
    if 176 % of == sel {
        out.push((176, format!("{:<+21o}", v)));
    }
    if 177 % of == sel {
        out.push((177, format!("{:^+3o}", v)));
    }
    if 178 % of == sel {
        out.push((178, format!("{:^+21o}", v)));
    }
    if 179 % of == sel {
        out.push((179, format!("{:>+3o}", v)));
    }
    if 180 % of == sel {
        out.push((180, format!("{:>+21o}", v)));
    }
    if 181 % of == sel {
        out.push((181, format!("{:*^+3o}", v)));
    }
    if 182 % of == sel {
        out.push((182, format!("{:*^+21o}", v)));
    }
    if 183 % of == sel {
        out.push((183, format!("{:_>+3o}", v)));
    }
    if 184 % of == sel {
        out.push((184, format!("{:_>+21o}", v)));
    }
    if 185 % of == sel {
        out.push((185, format!("{:0<+3o}", v)));
    }
    if 186 % of == sel {
        out.push((186, format!("{:0<+21o}", v)));
    }
    if 187 % of == sel {
        out.push((187, format!("{:+#o}", v)));
    }
    if 188 % of == sel {
        out.push((188, format!("{:+#03o}", v)));
    }
    if 189 % of == sel {
        out.push((189, format!("{:+#021o}", v)));
    }
    if 190 % of == sel {
        out.push((190, format!("{:+#3o}", v)));
    }
    if 191 % of == sel {
        out.push((191, format!("{:+#21o}", v)));
    }
    if 192 % of == sel {
        out.push((192, format!("{:<+#3o}", v)));
    }
    if 193 % of == sel {
        out.push((193, format!("{:<+#21o}", v)));
    }
    if 194 % of == sel {
        out.push((194, format!("{:^+#3o}", v)));
    }
    if 195 % of == sel {
        out.push((195, format!("{:^+#21o}", v)));
    }
    if 196 % of == sel {
        out.push((196, format!("{:>+#3o}", v)));
    }
    if 197 % of == sel {
        out.push((197, format!("{:>+#21o}", v)));
    }
    if 198 % of == sel {
        out.push((198, format!("{:*^+#3o}", v)));
    }
    if 199 % of == sel {
        out.push((199, format!("{:*^+#21o}", v)));
    }
    if 200 % of == sel {
        out.push((200, format!("{:_>+#3o}", v)));
    }
    if 201 % of == sel {
        out.push((201, format!("{:_>+#21o}", v)));
    }
    if 202 % of == sel {
        out.push((202, format!("{:0<+#3o}", v)));
    }
    if 203 % of == sel {
        out.push((203, format!("{:0<+#21o}", v)));
    }
    if true {
        out.push((204, format!("{:x}", v)));
    }
    if 205 % of == sel {
        out.push((205, format!("{:03x}", v)));
    }
    if 206 % of == sel {
        out.push((206, format!("{:021x}", v)));
    }
    if 207 % of == sel {
        out.push((207, format!("{:3x}", v)));
    }
    if 208 % of == sel {
        out.push((208, format!("{:21x}", v)));
    }
    if 209 % of == sel {
        out.push((209, format!("{:<3x}", v)));
    }
    if 210 % of == sel {
        out.push((210, format!("{:<21x}", v)));
    }
    if 211 % of == sel {
        out.push((211, format!("{:^3x}", v)));
    }
    if 212 % of == sel {
        out.push((212, format!("{:^21x}", v)));
    }
    if 213 % of == sel {
        out.push((213, format!("{:>3x}", v)));
    }
    if 214 % of == sel {
        out.push((214, format!("{:>21x}", v)));
    }
    if 215 % of == sel {
        out.push((215, format!("{:*^3x}", v)));
    }
    if 216 % of == sel {
        out.push((216, format!("{:*^21x}", v)));
    }
    if 217 % of == sel {
        out.push((217, format!("{:_>3x}", v)));
    }
    if 218 % of == sel {
        out.push((218, format!("{:_>21x}", v)));
    }
    if 219 % of == sel {
        out.push((219, format!("{:0<3x}", v)));
    }
    if 220 % of == sel {
        out.push((220, format!("{:0<21x}", v)));
    }
    if 221 % of == sel {
        out.push((221, format!("{:#x}", v)));
    }
    if 222 % of == sel {
        out.push((222, format!("{:#03x}", v)));
    }
    if 223 % of == sel {
        out.push((223, format!("{:#021x}", v)));
    }
    if 224 % of == sel {
        out.push((224, format!("{:#3x}", v)));
    }
    if 225 % of == sel {
        out.push((225, format!("{:#21x}", v)));
    }
    if 226 % of == sel {
        out.push((226, format!("{:<#3x}", v)));
    }
    if 227 % of == sel {
        out.push((227, format!("{:<#21x}", v)));
    }
    if 228 % of == sel {
        out.push((228, format!("{:^#3x}", v)));
    }
    if 229 % of == sel {
        out.push((229, format!("{:^#21x}", v)));
    }
    if 230 % of == sel {
        out.push((230, format!("{:>#3x}", v)));
    }
    if 231 % of == sel {
        out.push((231, format!("{:>#21x}", v)));
    }
    if 232 % of == sel {
        out.push((232, format!("{:*^#3x}", v)));
    }
    if 233 % of == sel {
        out.push((233, format!("{:*^#21x}", v)));
    }
    if 234 % of == sel {
        out.push((234, format!("{:_>#3x}", v)));
    }
    if 235 % of == sel {
        out.push((235, format!("{:_>#21x}", v)));
    }
    if 236 % of == sel {
        out.push((236, format!("{:0<#3x}", v)));
    }
    if 237 % of == sel {
        out.push((237, format!("{:0<#21x}", v)));
    }
    if 238 % of == sel {
        out.push((238, format!("{:+x}", v)));
    }
    if 239 % of == sel {
        out.push((239, format!("{:+03x}", v)));
    }
    if 240 % of == sel {
        out.push((240, format!("{:+021x}", v)));
    }
    if 241 % of == sel {
        out.push((241, format!("{:+3x}", v)));
    }
    if 242 % of == sel {
        out.push((242, format!("{:+21x}", v)));
    }
    if 243 % of == sel {
        out.push((243, format!("{:<+3x}", v)));
    }
    if 244 % of == sel {
        out.push((244, format!("{:<+21x}", v)));
    }
    if 245 % of == sel {
        out.push((245, format!("{:^+3x}", v)));
    }
    if 246 % of == sel {
        out.push((246, format!("{:^+21x}", v)));
    }
    if 247 % of == sel {
        out.push((247, format!("{:>+3x}", v)));
    }
    if 248 % of == sel {
        out.push((248, format!("{:>+21x}", v)));
    }
    if 249 % of == sel {
        out.push((249, format!("{:*^+3x}", v)));
    }
    if 250 % of == sel {
        out.push((250, format!("{:*^+21x}", v)));
    }
    if 251 % of == sel {
        out.push((251, format!("{:_>+3x}", v)));
    }
    if 252 % of == sel {
        out.push((252, format!("{:_>+21x}", v)));
    }
    if 253 % of == sel {
        out.push((253, format!("{:0<+3x}", v)));
    }
    if 254 % of == sel {
        out.push((254, format!("{:0<+21x}", v)));
    }
    if 255 % of == sel {
        out.push((255, format!("{:+#x}", v)));
    }
    if 256 % of == sel {
        out.push((256, format!("{:+#03x}", v)));
    }
    if 257 % of == sel {
        out.push((257, format!("{:+#021x}", v)));
    }
    if 258 % of == sel {
        out.push((258, format!("{:+#3x}", v)));
    }
    if 259 % of == sel {
        out.push((259, format!("{:+#21x}", v)));
    }
    if 260 % of == sel {
        out.push((260, format!("{:<+#3x}", v)));
    }
    if 261 % of == sel {
        out.push((261, format!("{:<+#21x}", v)));
    }
    if 262 % of == sel {
        out.push((262, format!("{:^+#3x}", v)));
    }
    if 263 % of == sel {
        out.push((263, format!("{:^+#21x}", v)));
    }
    if 264 % of == sel {
        out.push((264, format!("{:>+#3x}", v)));
    }
    if 265 % of == sel {
        out.push((265, format!("{:>+#21x}", v)));
    }
    if 266 % of == sel {
        out.push((266, format!("{:*^+#3x}", v)));
    }
    if 267 % of == sel {
        out.push((267, format!("{:*^+#21x}", v)));
    }
    if 268 % of == sel {
        out.push((268, format!("{:_>+#3x}", v)));
    }
    if 269 % of == sel {
        out.push((269, format!("{:_>+#21x}", v)));
    }
    if 270 % of == sel {
        out.push((270, format!("{:0<+#3x}", v)));
    }
    if 271 % of == sel {
        out.push((271, format!("{:0<+#21x}", v)));
    }
    if true {
        out.push((272, format!("{:X}", v)));
    }
    if 273 % of == sel {
        out.push((273, format!("{:03X}", v)));
    }
    if 274 % of == sel {
        out.push((274, format!("{:021X}", v)));
    }
    if 275 % of == sel {
        out.push((275, format!("{:3X}", v)));
    }
    if 276 % of == sel {
        out.push((276, format!("{:21X}", v)));
    }
    if 277 % of == sel {
        out.push((277, format!("{:<3X}", v)));
    }
    if 278 % of == sel {
        out.push((278, format!("{:<21X}", v)));
    }
    if 279 % of == sel {
        out.push((279, format!("{:^3X}", v)));
    }
    if 280 % of == sel {
        out.push((280, format!("{:^21X}", v)));
    }
    if 281 % of == sel {
        out.push((281, format!("{:>3X}", v)));
    }
    if 282 % of == sel {
        out.push((282, format!("{:>21X}", v)));
    }
    if 283 % of == sel {
        out.push((283, format!("{:*^3X}", v)));
    }
    if 284 % of == sel {
        out.push((284, format!("{:*^21X}", v)));
    }
    if 285 % of == sel {
        out.push((285, format!("{:_>3X}", v)));
    }
    if 286 % of == sel {
        out.push((286, format!("{:_>21X}", v)));
    }
    if 287 % of == sel {
        out.push((287, format!("{:0<3X}", v)));
    }
    if 288 % of == sel {
        out.push((288, format!("{:0<21X}", v)));
    }
    if 289 % of == sel {
        out.push((289, format!("{:#X}", v)));
    }
    if 290 % of == sel {
        out.push((290, format!("{:#03X}", v)));
    }
    if 291 % of == sel {
        out.push((291, format!("{:#021X}", v)));
    }
    if 292 % of == sel {
        out.push((292, format!("{:#3X}", v)));
    }
    if 293 % of == sel {
        out.push((293, format!("{:#21X}", v)));
    }
    if 294 % of == sel {
        out.push((294, format!("{:<#3X}", v)));
    }
    if 295 % of == sel {
        out.push((295, format!("{:<#21X}", v)));
    }
    if 296 % of == sel {
        out.push((296, format!("{:^#3X}", v)));
    }
    if 297 % of == sel {
        out.push((297, format!("{:^#21X}", v)));
    }
    if 298 % of == sel {
        out.push((298, format!("{:>#3X}", v)));
    }
    if 299 % of == sel {
        out.push((299, format!("{:>#21X}", v)));
    }
    if 300 % of == sel {
        out.push((300, format!("{:*^#3X}", v)));
    }
    if 301 % of == sel {
        out.push((301, format!("{:*^#21X}", v)));
    }
    if 302 % of == sel {
        out.push((302, format!("{:_>#3X}", v)));
    }
    if 303 % of == sel {
        out.push((303, format!("{:_>#21X}", v)));
    }
    if 304 % of == sel {
        out.push((304, format!("{:0<#3X}", v)));
    }
    if 305 % of == sel {
        out.push((305, format!("{:0<#21X}", v)));
    }
    if 306 % of == sel {
        out.push((306, format!("{:+X}", v)));
    }
    if 307 % of == sel {
        out.push((307, format!("{:+03X}", v)));
    }
    if 308 % of == sel {
        out.push((308, format!("{:+021X}", v)));
    }
    if 309 % of == sel {
        out.push((309, format!("{:+3X}", v)));
    }
    if 310 % of == sel {
        out.push((310, format!("{:+21X}", v)));
    }
    if 311 % of == sel {
        out.push((311, format!("{:<+3X}", v)));
    }
    if 312 % of == sel {
        out.push((312, format!("{:<+21X}", v)));
    }
    if 313 % of == sel {
        out.push((313, format!("{:^+3X}", v)));
    }
    if 314 % of == sel {
        out.push((314, format!("{:^+21X}", v)));
    }
    if 315 % of == sel {
        out.push((315, format!("{:>+3X}", v)));
    }
    if 316 % of == sel {
        out.push((316, format!("{:>+21X}", v)));
    }
    if 317 % of == sel {
        out.push((317, format!("{:*^+3X}", v)));
    }
    if 318 % of == sel {
        out.push((318, format!("{:*^+21X}", v)));
    }
    if 319 % of == sel {
        out.push((319, format!("{:_>+3X}", v)));
    }
    if 320 % of == sel {
        out.push((320, format!("{:_>+21X}", v)));
    }
    if 321 % of == sel {
        out.push((321, format!("{:0<+3X}", v)));
    }
    if 322 % of == sel {
        out.push((322, format!("{:0<+21X}", v)));
    }
    if 323 % of == sel {
        out.push((323, format!("{:+#X}", v)));
    }
    if 324 % of == sel {
        out.push((324, format!("{:+#03X}", v)));
    }
    if 325 % of == sel {
        out.push((325, format!("{:+#021X}", v)));
    }
    if 326 % of == sel {
        out.push((326, format!("{:+#3X}", v)));
    }
    if 327 % of == sel {
        out.push((327, format!("{:+#21X}", v)));
    }
    if 328 % of == sel {
        out.push((328, format!("{:<+#3X}", v)));
    }
    if 329 % of == sel {
        out.push((329, format!("{:<+#21X}", v)));
    }
    if 330 % of == sel {
        out.push((330, format!("{:^+#3X}", v)));
    }
    if 331 % of == sel {
        out.push((331, format!("{:^+#21X}", v)));
    }
    if 332 % of == sel {
        out.push((332, format!("{:>+#3X}", v)));
    }
    if 333 % of == sel {
        out.push((333, format!("{:>+#21X}", v)));
    }
    if 334 % of == sel {
        out.push((334, format!("{:*^+#3X}", v)));
    }
    if 335 % of == sel {
        out.push((335, format!("{:*^+#21X}", v)));
    }
    if 336 % of == sel {
        out.push((336, format!("{:_>+#3X}", v)));
    }
    if 337 % of == sel {
        out.push((337, format!("{:_>+#21X}", v)));
    }
    if 338 % of == sel {
        out.push((338, format!("{:0<+#3X}", v)));
    }
    if 339 % of == sel {
        out.push((339, format!("{:0<+#21X}", v)));
    }
    if 340 % of == sel {
        out.push((340, format!("{:.3}", v)));
    }
    if 341 % of == sel {
        out.push((341, format!("{:10.2}", v)));
    }
    if 342 % of == sel {
        out.push((342, format!("{:+.0}", v)));
    }
    if 343 % of == sel {
        out.push((343, format!("{:#.5x}", v)));
    }
    if 344 % of == sel {
        out.push((344, format!("{:0>+6}", v)));
    }
    if 345 % of == sel {
        out.push((345, format!("{:#066b}", v)));
    }
    if 346 % of == sel {
        out.push((346, format!("{:#0130b}", v)));
    }
    if 347 % of == sel {
        out.push((347, format!("{:070}", v)));
    }
    if 348 % of == sel {
        out.push((348, format!("{:^+#45o}", v)));
    }
    if 349 % of == sel {
        out.push((349, format!("{:<#040X}", v)));
    }
    out
}
