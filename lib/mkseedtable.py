#!/usr/bin/env python3
"""Regenerates the seeded-changes table of DESIGN.md (between the SEEDED-TABLE markers) from seeded/*/meta.json."""
import glob, json, os, re

HERE = os.path.dirname(os.path.abspath(__file__))
ROOT = os.path.dirname(HERE)

def short(s, n):
    s = re.sub(r"\s+", " ", (s or "").replace("|", "/")).strip()
    return s if len(s) <= n else s[: n - 3] + "..."

rows = ["| id | what was changed (author's summary) | needs, to manifest | own check (quick) | C03 check (quick) |", "|---|---|---|---|---|"]
for f in sorted(glob.glob(os.path.join(ROOT, "seeded", "C*", "meta.json"))):
    m = json.load(open(f))
    q = m.get("checks_run", {}).get("quick", {})
    prop = m["property"]
    tgt = q.get(prop, {})
    mons = sorted(set(s.split("] ", 1)[-1].split("|")[1] for s in tgt.get("signatures", [])))[:3]
    c3 = "(own)" if prop == "C03" else q.get("C03", {}).get("verdict", "not run")
    rows.append("| %s | %s | %s | %s: %s | %s |" % (m["id"], short(m.get("breaks"), 170), short(m.get("needs_to_manifest"), 150), tgt.get("verdict", "not run"), ", ".join(mons), c3))
table = "\n".join(rows)
p = os.path.join(ROOT, "DESIGN.md")
s = open(p).read()
a, b = "<!-- SEEDED-TABLE-BEGIN -->", "<!-- SEEDED-TABLE-END -->"
if a in s:
    s = s[: s.index(a) + len(a)] + "\n" + table + "\n" + s[s.index(b):]
    open(p, "w").write(s)
    print("table updated:", len(rows) - 2, "rows")
else:
    print(table)
