#!/usr/bin/env python3
"""Archive the semantics-preserving patches and their check verdicts:  lib/archive_benign.py [workdir=/tmp/seeded/benign]"""
import json, os, shutil, sys
HERE = os.path.dirname(os.path.abspath(__file__)); ROOT = os.path.dirname(HERE)
WORK = sys.argv[1] if len(sys.argv) > 1 else "/tmp/seeded/benign"
n = silent = runs = 0
for d in sorted(os.listdir(WORK)):
    src = os.path.join(WORK, d)
    if not os.path.exists(os.path.join(src, "patch.diff")):
        continue
    dst = os.path.join(ROOT, "seeded", "benign", d)
    os.makedirs(dst, exist_ok=True)
    shutil.copy(os.path.join(src, "patch.diff"), os.path.join(dst, "patch.diff"))
    raw = json.load(open(os.path.join(src, "meta.json")))
    old = json.load(open(os.path.join(dst, "meta.json"))) if os.path.exists(os.path.join(dst, "meta.json")) else {}
    meta = {k: raw.get(k, old.get(k)) for k in ("id", "property", "kind", "summary")}
    cr = json.load(open(os.path.join(src, "checks_run.json"))) if os.path.exists(os.path.join(src, "checks_run.json")) else {}
    meta["checks_run"] = {"quick": cr.get("quick", {})}
    oldq = old.get("checks_run", {}).get("quick")
    if oldq and oldq != meta["checks_run"]["quick"]:
        meta["checks_run"]["earlier_full_battery_harness"] = old.get("checks_run", {}).get("earlier_full_battery_harness", oldq)
    json.dump(meta, open(os.path.join(dst, "meta.json"), "w"), indent=1)
    n += 1
    for k, v in meta["checks_run"]["quick"].items():
        runs += 1
        silent += v.get("verdict") == "MISSED"
print("benign patches archived:", n, "runs:", runs, "silent:", silent)
