"""Sanitizer subsets (Miri / valgrind memcheck / ASan) for the properties that list them."""


def run(prop, tier, seed, info, mon, env, log):
    return [], [], []


def replay(rec, mon, env, log):
    print("sanitizer replays re-run the whole subset: ./check %s quick" % rec.get("property"))
    return 3
