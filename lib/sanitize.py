"""Sanitizer subsets for the properties that list them (C12): the reduced workload `SANIT`
(monitor/src/props/sanit.rs) is executed under

  * Miri  (cargo +nightly miri run, one single-threaded process per shard, 16 at a time) - the UB
    interpreter: alignment / out-of-bounds / provenance / invalid values on the `align_to` paths,
    plus integer-overflow and debug assertions (dev profile);
  * valgrind memcheck on the optimised `rel` binary - uninitialised or out-of-bounds accesses in
    the code users ship.

A sanitizer report is a violation (with the tool output as the replay record); a tool that cannot
start, a build failure or a timeout is *inconclusive*, never a violation.
"""
import json
import os
import subprocess
import time
from concurrent.futures import ThreadPoolExecutor

REPO = os.environ.get("BVA_REPO", "/repo")


def _hooks():
    try:
        return "verif-hooks" in open(os.path.join(REPO, "Cargo.toml")).read()
    except OSError:
        return False


def _miri_cmd(shard, nshards, tier, seed):
    cmd = ["cargo", "+nightly", "miri", "run", "--target-dir", "target-miri", "--bin", "monitor"]
    if not _hooks():
        cmd.append("--no-default-features")
    cmd += ["--", "run", "--property", "SANIT", "--tier", tier, "--seed", str(seed), "--shard", "%d/%d" % (shard, nshards), "--build", "miri"]
    return cmd


def _run(cmd, mon, env, timeout):
    t0 = time.time()
    try:
        p = subprocess.run(cmd, cwd=mon, env=env, stdout=subprocess.PIPE, stderr=subprocess.PIPE, text=True, timeout=timeout)
        return p.returncode, p.stdout, p.stderr, time.time() - t0, False
    except subprocess.TimeoutExpired as e:
        return None, e.stdout or "", e.stderr or "", time.time() - t0, True


def _parse(stdout):
    try:
        i = stdout.index("{")
        return json.loads(stdout[i:])
    except (ValueError, json.JSONDecodeError):
        return None


def run_miri(tier, seed, mon, env, log):
    """quick: 16 of 128 shards of the tiny subset (rotating with the seed); thorough: all 32 of 32."""
    if tier == "quick":
        nshards, first = 128, (seed * 16) % 128
        shards = [(first + i) % nshards for i in range(16)]
        timeout = 900
    else:
        nshards = 32
        shards = list(range(32))
        timeout = 3600
    env = dict(env)
    env.pop("RUSTFLAGS", None)
    # build once (first shard), then the rest in parallel
    results = []
    rc, out, err, dt, to = _run(_miri_cmd(shards[0], nshards, "tiny", seed), mon, env, timeout + 600)
    results.append((shards[0], rc, out, err, dt, to))
    if rc is None or (rc != 0 and "error: could not compile" in err) or "is not installed" in err:
        return results, nshards
    with ThreadPoolExecutor(16) as ex:
        futs = [(s, ex.submit(_run, _miri_cmd(s, nshards, "tiny", seed), mon, env, timeout)) for s in shards[1:]]
        for s, f in futs:
            rc, out, err, dt, to = f.result()
            results.append((s, rc, out, err, dt, to))
    return results, nshards


def run_memcheck(tier, seed, mon, env, log):
    binary = os.path.join(mon, "target-rel", "rel", "monitor")
    if not os.path.exists(binary):
        return [(0, None, "", "rel binary missing", 0.0, False)], 1
    sub_tier = "tiny" if tier == "quick" else "quick"
    nshards = 4 if tier == "quick" else 16
    timeout = 900 if tier == "quick" else 5400

    def one(s):
        cmd = ["valgrind", "--error-exitcode=9", "--quiet", "--num-callers=30", binary, "run", "--property", "SANIT", "--tier", sub_tier,
               "--seed", str(seed), "--shard", "%d/%d" % (s, nshards), "--build", "memcheck"]
        rc, out, err, dt, to = _run(cmd, mon, env, timeout)
        return (s, rc, out, err, dt, to)

    with ThreadPoolExecutor(nshards) as ex:
        results = list(ex.map(one, range(nshards)))
    return results, nshards


def _first_error_lines(err, tool):
    lines = [l for l in err.splitlines() if l.strip()]
    if tool == "miri":
        for i, l in enumerate(lines):
            if l.startswith("error"):
                return lines[i:i + 25]
    else:
        for i, l in enumerate(lines):
            if l.startswith("==") and ("Invalid" in l or "uninitialised" in l or "Mismatched" in l or "definitely lost" in l or "Process terminating" in l):
                return lines[i:i + 25]
    return lines[-25:]


def run(prop, tier, seed, info, mon, env, log):
    records, violations, inconclusive = [], [], []
    plans = info.get("sanitizers", [])
    with ThreadPoolExecutor(2) as ex:
        futs = {}
        if "miri" in plans:
            futs["miri"] = ex.submit(run_miri, tier, seed, mon, env, log)
        if "memcheck" in plans:
            futs["memcheck"] = ex.submit(run_memcheck, tier, seed, mon, env, log)
        done = {k: f.result() for k, f in futs.items()}
    for tool, (results, nshards) in done.items():
        ops = calls = reports = 0
        wall = 0.0
        shards_ok = 0
        for (s, rc, out, err, dt, timed_out) in results:
            wall = max(wall, dt)
            data = _parse(out)
            if timed_out:
                inconclusive.append("%s shard %d/%d: watchdog fired after %.0fs" % (tool, s, nshards, dt))
                continue
            if rc == 0 and data is not None:
                shards_ok += 1
                ops += data.get("evaluations", 0)
                calls += data.get("observer_calls", 0)
                for v in data.get("violations", []):
                    violations.append({"property": prop, "tool": tool, "sig": "%s|%s" % (tool, v["sig"]), "case": v["case"], "detail": v["detail"],
                                       "replay": "monitor replay --property SANIT --case '<case>' under " + tool})
                continue
            is_report = (tool == "miri" and ("Undefined Behavior" in err or "error: unsupported operation" in err or "memory leaked" in err or "error: abnormal termination" in err)) or \
                        (tool == "memcheck" and rc == 9)
            if is_report:
                reports += 1
                head = _first_error_lines(err, tool)
                first = next((l for l in head if "src/" in l and "/repo/" in l), head[0] if head else "?")
                violations.append({"property": prop, "tool": tool, "sig": "%s|report|%s" % (tool, first.strip()[:160]),
                                   "shard": "%d/%d" % (s, nshards), "tier": tier, "seed": seed, "output": head,
                                   "replay": "re-run: ./check %s %s (VERIF_SEED=%d); shard %d/%d of the SANIT subset under %s" % (prop, tier, seed, s, nshards, tool)})
            elif rc == 3:
                inconclusive.append("%s shard %d/%d: harness error: %s" % (tool, s, nshards, err[-400:]))
            else:
                inconclusive.append("%s shard %d/%d could not run (exit %s): %s" % (tool, s, nshards, rc, err[-600:]))
        log("[sanitizer %s] shards ok %d/%d, ops %d, reports %d, wall %.0fs" % (tool, shards_ok, len(results), ops, reports, wall))
        records.append({"tool": tool, "shards_run": len(results), "shards_of": nshards, "shards_clean": shards_ok, "ops": ops,
                        "observer_calls": calls, "reports": reports, "wall_s": round(wall, 1),
                        "workload": "SANIT subset (conversions, comparisons, splices, operators, division, hash, integer conversions, slice primitives via hooks, histories)"})
    return records, violations, inconclusive


def replay(rec, mon, env, log):
    """Re-run the recorded shard (or the recorded case) under the recorded tool."""
    tool = rec.get("tool")
    print("sanitizer finding recorded by tool %s:" % tool)
    for l in rec.get("output", []):
        print("   " + l)
    if rec.get("case"):
        if tool == "miri":
            cmd = ["cargo", "+nightly", "miri", "run", "--target-dir", "target-miri", "--bin", "monitor"] + ([] if _hooks() else ["--no-default-features"]) + \
                  ["--", "replay", "--property", "SANIT", "--build", "miri", "--case", rec["case"]]
        else:
            cmd = ["valgrind", "--error-exitcode=9", "--quiet", os.path.join(mon, "target-rel", "rel", "monitor"), "replay", "--property", "SANIT",
                   "--build", "memcheck", "--case", rec["case"]]
    elif rec.get("shard"):
        s, n = [int(x) for x in rec["shard"].split("/")]
        sub_tier = "tiny" if (tool == "miri" or rec.get("tier") == "quick") else "quick"
        if tool == "miri":
            cmd = _miri_cmd(s, n, "tiny", rec.get("seed", 1))
        else:
            cmd = ["valgrind", "--error-exitcode=9", "--quiet", os.path.join(mon, "target-rel", "rel", "monitor"), "run", "--property", "SANIT",
                   "--tier", sub_tier, "--seed", str(rec.get("seed", 1)), "--shard", "%d/%d" % (s, n), "--build", "memcheck"]
    else:
        print("record has neither case nor shard")
        return 3
    rc, out, err, dt, to = _run(cmd, mon, env, 3600)
    if to or rc is None:
        print("INCONCLUSIVE: timeout")
        return 3
    data = _parse(out)
    if rc == 0 and data is not None and not data.get("violations"):
        print("no report on replay")
        return 0
    print("STILL FAILS (exit %s)" % rc)
    for l in _first_error_lines(err, tool):
        print("   " + l)
    return 1
