#!/usr/bin/env python3
"""Archive confirmed seeded changes from a working directory (default /tmp/seeded) into /verif/seeded/<id>/ and refresh
the recorded check verdicts:  lib/archive_seeded.py [workdir]

For every <workdir>/<id>/ (id = Cnn[a-z]) with confirm.json {"confirmed": true}: copies patch.diff and demo.rs, writes
meta.json (normalised: id, property, breaks, needs_to_manifest, demo_command, author, authors_own_runs, confirmed_by_me,
checks_run). Verdicts come from <workdir>/<id>/checks_run.json as written by ./seedrun; an existing archived meta keeps
its earlier verdicts under checks_run["earlier_harness_versions"]."""
import json, os, re, shutil, sys

HERE = os.path.dirname(os.path.abspath(__file__)); ROOT = os.path.dirname(HERE)
WORK = sys.argv[1] if len(sys.argv) > 1 else "/tmp/seeded"
ROUND = {"a": 1, "b": 1, "c": 2, "d": 2, "e": 3, "f": 3}
AUTHOR = {
    1: "independent sub-agent given only the property text and a scratch worktree (round 1)",
    2: "independent sub-agent given only the property text, a scratch worktree and a one-line summary of the first-round sites to avoid (round 2: 'subtler')",
    3: "independent sub-agent given only the property text, a scratch worktree and one-line summaries of the sites of rounds 1-2 to avoid (round 3: 'a different mechanism, needs something specific to manifest')",
}
n = 0
for d in sorted(os.listdir(WORK)):
    if not re.fullmatch(r"C\d\d[a-f]", d):
        continue
    src = os.path.join(WORK, d)
    try:
        conf = json.load(open(os.path.join(src, "confirm.json")))
    except Exception:
        print(d, "no confirm.json - skipped"); continue
    if not conf.get("confirmed"):
        print(d, "NOT confirmed - skipped"); continue
    dst = os.path.join(ROOT, "seeded", d)
    os.makedirs(dst, exist_ok=True)
    old = {}
    if os.path.exists(os.path.join(dst, "meta.json")):
        old = json.load(open(os.path.join(dst, "meta.json")))
    raw = json.load(open(os.path.join(src, "meta.json")))
    for f in ("patch.diff", "demo.rs"):
        shutil.copy(os.path.join(src, f), os.path.join(dst, f))
    rnd = ROUND[d[3]]
    meta = {
        "id": d, "property": d[:3],
        "breaks": old.get("breaks") or raw.get("breaks") or raw.get("summary"),
        "needs_to_manifest": old.get("needs_to_manifest") or raw.get("needs_to_manifest"),
        "demo_command": raw.get("demo_command", "cargo test --offline --test demo"),
        "author": old.get("author") or AUTHOR[rnd],
        "authors_own_runs": old.get("authors_own_runs") or {k: raw[k] for k in ("suite_with_change", "commands_run", "demo_with_change", "demo_without_change", "demo_note") if k in raw},
        "confirmed_by_me": old.get("confirmed_by_me") or dict(
            how="lib/confirm_seeded.sh in a scratch worktree outside /repo and /verif: git apply; cargo build --offline (with and without --features verif-hooks); cargo test --offline (unedited suite); demo with the change; demo without it", **conf),
    }
    cr = {}
    if os.path.exists(os.path.join(src, "checks_run.json")):
        cr = json.load(open(os.path.join(src, "checks_run.json")))
    oldcr = old.get("checks_run", {})
    earlier = oldcr.get("earlier_harness_versions", {})
    if oldcr.get("quick") and oldcr.get("quick") != cr.get("quick"):
        for k, v in oldcr["quick"].items():
            earlier.setdefault(k, v)
    q = cr.get("quick", oldcr.get("quick", {}))
    # current verdicts: the property's own check and C03; anything else recorded came from cross-runs of earlier harness versions
    for k in list(q):
        if k not in (d[:3], "C03"):
            earlier.setdefault(k, q.pop(k))
    meta["checks_run"] = {"quick": q}
    if "thorough" in cr or "thorough" in oldcr:
        meta["checks_run"]["thorough"] = cr.get("thorough", oldcr.get("thorough"))
    if earlier:
        meta["checks_run"]["earlier_harness_versions"] = earlier
    json.dump(meta, open(os.path.join(dst, "meta.json"), "w"), indent=1)
    n += 1
print("archived / refreshed", n)
