#!/bin/bash
# Independent confirmation of a seeded change in its scratch worktree:
#   lib/confirm_seeded.sh <seeded dir> <worktree>
# (1) patch applies, (2) builds with and without the hook feature, (3) the unedited test suite passes,
# (4) the demonstration fails with the change and (5) passes without it. Writes <seeded dir>/confirm.json.
set -u
D=$(readlink -f "$1"); WT=$(readlink -f "$2")
export CARGO_NET_OFFLINE=true
cd "$WT" || exit 2
git checkout -q -- . ; rm -rf tests
res() { printf '%s' "$1"; }
apply=fail; build=fail; buildhooks=fail; suite=fail; demo_with=unknown; demo_without=unknown
if git apply "$D/patch.diff"; then apply=ok; fi
cargo build --offline >/dev/null 2>&1 && build=ok
cargo build --offline --features verif-hooks >/dev/null 2>&1 && buildhooks=ok
suite_out=$(cargo test --offline 2>&1 | grep -E '^test result' | tr '\n' ' ')
echo "$suite_out" | grep -q 'FAILED' || { echo "$suite_out" | grep -q '235 passed' && suite=ok; }
demo_cmd=$(python3 -c "import json,sys; print(json.load(open('$D/meta.json')).get('demo_command','cargo test --offline --test demo'))")
rel=""; case "$demo_cmd" in *--release*) rel="--release";; esac
mkdir -p tests; cp "$D/demo.rs" tests/demo.rs
if cargo test --offline $rel --test demo >/tmp/confirm_demo_with.$$ 2>&1; then demo_with=pass; else demo_with=fail; fi
grep -q 'error\[' /tmp/confirm_demo_with.$$ && demo_with=compile-error
git checkout -q -- .
if cargo test --offline $rel --test demo >/tmp/confirm_demo_without.$$ 2>&1; then demo_without=pass; else demo_without=fail; fi
rm -rf tests /tmp/confirm_demo_with.$$ /tmp/confirm_demo_without.$$
git checkout -q -- .
cat > "$D/confirm.json" <<EOJ
{"patch_applies": "$apply", "build": "$build", "build_with_hooks": "$buildhooks", "existing_suite_with_change": "$suite", "suite_output": "$suite_out",
 "demo_with_change": "$demo_with", "demo_without_change": "$demo_without", "demo_profile": "${rel:-debug}",
 "confirmed": $( [ $apply = ok ] && [ $build = ok ] && [ $buildhooks = ok ] && [ $suite = ok ] && [ $demo_with = fail ] && [ $demo_without = pass ] && echo true || echo false )}
EOJ
cat "$D/confirm.json"
