#!/bin/bash
# Silence runs: every check of the given tier at several seeds on the unchanged tree; any exit != 0 is reported.
#   lib/silence.sh quick 1 2 3      lib/silence.sh thorough 7
cd "$(dirname "$0")/.." || exit 2
tier=$1; shift
bad=0
for seed in "$@"; do
  for p in C01 C02 C03 C04 C05 C06 C07 C08 C09 C10 C11 C12 C13 C14 C15 C16 C17 C18 C19 C20; do
    out=$(VERIF_SEED=$seed ./check $p $tier 2>/dev/null | grep -E '^(RESULT|VIOLATION|INCONCLUSIVE|KNOWN)')
    rc=$?
    line=$(echo "$out" | grep '^RESULT')
    echo "seed=$seed $line"
    case "$line" in *held-on-observed*) ;; *) bad=$((bad+1)); echo "$out" | head -5;; esac
  done
done
echo "non-silent runs: $bad"
exit $([ $bad = 0 ] && echo 0 || echo 1)
