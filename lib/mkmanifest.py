#!/usr/bin/env python3
"""Regenerates /verif/MANIFEST.json from lib/propinfo.py (run after changing propinfo)."""
import json
import os
import subprocess
import sys

HERE = os.path.dirname(os.path.abspath(__file__))
sys.path.insert(0, HERE)
from propinfo import PROPS, TECHNIQUE, LEVEL_TEXT, DESIGN_REF  # noqa

hook_commits = subprocess.run(["git", "-C", "/repo", "log", "--format=%h %s"], stdout=subprocess.PIPE, text=True).stdout.splitlines()
hook_commits = [l.split()[0] for l in hook_commits if l.split(" ", 1)[1].startswith("verif:")]

checks = []
for pid in sorted(PROPS):
    checks.append({
        "property_id": pid,
        "quick_cmd": "./check %s quick" % pid,
        "thorough_cmd": "./check %s thorough" % pid,
        "evidence_file": "/verif/evidence/%s.json" % pid,
        "replay_cmd_template": "./check replay {path}",
        "engine": "bva-monitor",
        "level_claimed": {
            "category": "exploration",
            "text": LEVEL_TEXT[pid],
            "design_ref": DESIGN_REF[pid],
        },
        "level_note": "Trusted base: the Vec<bool>/BigUint model and the judging code in /verif/monitor (oracles cross-checked against u128 arithmetic and "
                      "Rust's integer formatting); rustc/std; Miri and valgrind where listed. Decides only the executions produced: bounded lengths, sampled "
                      "values and histories, x86-64 only. Held = every monitor silent on everything observed, never 'verified'.",
        "technique": TECHNIQUE[pid],
    })

manifest = {
    "version": 1,
    "setup_cmd": "./check setup",
    "hooks": {
        "guard": "cargo feature `verif-hooks` of crate bva (off by default)",
        "enable": "the harness crate /verif/monitor depends on bva by path with its default feature `hooks = [\"bva/verif-hooks\"]`; "
                  "./check builds it with --no-default-features when /repo/Cargo.toml does not declare the feature",
        "baseline_off_cmd": "cd /repo && cargo test --workspace --no-fail-fast --offline",
        "source_commits": hook_commits,
        "add_only": True,
    },
    "engines": [
        {
            "name": "bva-monitor",
            "path": "/verif/monitor",
            "serves_properties": sorted(PROPS),
            "kind_free_text": "Rust harness running the real bva code in two instrumented builds (dbg: debug-assertions+overflow-checks; rel: both off) "
                              "and, for subsets, under Miri / valgrind memcheck; client-boundary recorder under catch_unwind, shadow model, differential "
                              "observer battery, per-property monitors, replayable case strings; orchestrated by /verif/check (python3 stdlib).",
        }
    ],
    "checks": checks,
    "not_applicable": [],
    "notes": "Technique family: runtime monitoring and sanitizers. bva is sequential and deterministic, so the monitors are reference-model, "
             "invariant, relation and fault-injection (Read/Write) monitors over recorded executions; see DESIGN.md. Exit codes of every command: "
             "0 held on everything observed, 1 VIOLATION line(s), 3 inconclusive (never a VIOLATION line). Known findings: /verif/known_findings.json "
             "(ten genuine defects found and repaired by `fix:` commits in /repo; none open).",
}
json.dump(manifest, open(os.path.join(os.path.dirname(HERE), "MANIFEST.json"), "w"), indent=1)
print("wrote MANIFEST.json with %d checks; hook commits %s" % (len(checks), hook_commits))
